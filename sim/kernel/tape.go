// Package kernel is the deterministic-simulation kernel: one tape of choices, a
// cooperative scheduler over parked tasks, an event log whose hash identifies the
// execution, and the worker-process harness.
package kernel

import (
	"bufio"
	"fmt"
	"math/rand/v2"
	"os"
)

// Tape is the single source of every decision in a run. In generate mode values
// come from one PCG stream; in replay mode they are read back. A replay value that
// is out of range for the current choice is reduced modulo n and an exhausted tape
// yields 0, so every list of integers is a valid execution (needed for shrinking).
type Tape struct {
	rng    *rand.Rand
	replay []int
	isRep  bool
	pos    int
	rec    []int
	cap    int
	Capped bool
	out    *bufio.Writer
	outF   *os.File
}

// NewTape makes a generating tape. seed and run select the PCG stream.
func NewTape(seed uint64, run uint64, maxLen int) *Tape {
	return &Tape{rng: rand.New(rand.NewPCG(seed, run*0x9e3779b97f4a7c15+0x632be59bd9b4e019)), cap: maxLen}
}

// NewReplayTape replays vals.
func NewReplayTape(vals []int, maxLen int) *Tape {
	return &Tape{replay: vals, isRep: true, cap: maxLen}
}

// StreamTo appends every choice to path as it is made (used when re-running a seed
// whose run kills the process, so the tape survives the crash).
func (t *Tape) StreamTo(path string) error {
	f, err := os.Create(path)
	if err != nil {
		return err
	}
	t.outF = f
	t.out = bufio.NewWriter(f)
	return nil
}

func (t *Tape) CloseStream() {
	if t.out != nil {
		t.out.Flush()
		t.outF.Close()
		t.out = nil
	}
}

// Choose returns a value in [0,n). label is for humans only.
func (t *Tape) Choose(n int, label string) int {
	if n <= 1 {
		return 0
	}
	var v int
	if len(t.rec) >= t.cap {
		t.Capped = true
		v = 0
	} else if t.isRep {
		if t.pos < len(t.replay) {
			v = t.replay[t.pos]
			if v < 0 {
				v = -v
			}
			v %= n
		}
		t.pos++
	} else {
		v = t.rng.IntN(n)
	}
	t.rec = append(t.rec, v)
	if t.out != nil {
		fmt.Fprintf(t.out, "%d\n", v)
		t.out.Flush()
	}
	return v
}

// Bool is Choose(2)==1 with probability 1/2; Chance(p, q) is true with probability p/q.
func (t *Tape) Bool(label string) bool { return t.Choose(2, label) == 1 }

// Chance is true when a q-sided die shows less than p. On a zeroed tape it is true
// only when p>=q... no: value 0 < p, so zero means "yes". To make zero the *quiet*
// choice (helps shrinking towards fewer faults) the sense is inverted: it is true
// when the die shows q-1 .. q-p.
func (t *Tape) Chance(p, q int, label string) bool {
	if p <= 0 {
		return false
	}
	v := t.Choose(q, label)
	return v >= q-p
}

// Range returns a value in [lo,hi].
func (t *Tape) Range(lo, hi int, label string) int {
	if hi <= lo {
		return lo
	}
	return lo + t.Choose(hi-lo+1, label)
}

// Pick returns an index weighted by w (all weights >= 0, at least one > 0).
func (t *Tape) Pick(w []int, label string) int {
	sum := 0
	for _, x := range w {
		sum += x
	}
	if sum <= 0 {
		return 0
	}
	v := t.Choose(sum, label)
	for i, x := range w {
		if v < x {
			return i
		}
		v -= x
	}
	return len(w) - 1
}

// Recorded returns the values consumed so far.
func (t *Tape) Recorded() []int { return t.rec }

// Len is the number of choices made.
func (t *Tape) Len() int { return len(t.rec) }
