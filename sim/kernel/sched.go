package kernel

import (
	"crypto/sha256"
	"encoding/hex"
	"fmt"
	"hash"
	"runtime"
	"sort"
	"strconv"
	"strings"
	"sync"
	"sync/atomic"
	"testing/synctest"
)

// Mode selects the quiescence strategy.
type Mode int

const (
	// M1: the code under test starts no goroutines; tasks are started with Go and the
	// kernel counts running tasks.
	M1 Mode = iota
	// M2: the run executes inside a testing/synctest bubble; quiescence is
	// synctest.Wait().
	M2
)

// Decision is what the scheduler hands to a parked task when it releases it.
type Decision struct {
	Op  string // "" = proceed normally; otherwise seam-specific ("fail", "short", ...)
	N   int
	Err error
}

// Parked is one task blocked at a seam.
type Parked struct {
	Name   string
	Kind   string
	Detail string
	Data   any
	resume chan Decision
	seq    int
}

func (p *Parked) String() string { return p.Name + "@" + p.Kind + "(" + p.Detail + ")" }

// Kernel owns tasks, log and tape for one run.
type Kernel struct {
	T    *Tape
	mode Mode

	mu      sync.Mutex
	cond    *sync.Cond
	parked  []*Parked
	running int
	seq     int
	// M1: goroutine ids of the tasks, and how many of them are blocked on a lock of the code
	// under test (they are neither running nor parked: only an unlock can wake them)
	gids    map[int64]bool
	gidName map[int64]string
	blocked int

	logH      hash.Hash
	schedH    hash.Hash
	Lines     []string
	maxLines  int
	Steps     int
	MaxSteps  int
	Switches  int
	lastTask  string
	Stats     map[string]int64
	GroupRels int
	// Quiescing is true while the scheduler waits for the tasks to settle, i.e. while code
	// of the system under test runs; hooks use it to tell task goroutines from the scheduler.
	Quiescing atomic.Bool
}

// Active is the kernel of the run in progress (nil outside runs). Shims consult it.
var Active *Kernel

func New(t *Tape, mode Mode, maxSteps int) *Kernel {
	k := &Kernel{T: t, mode: mode, logH: sha256.New(), schedH: sha256.New(), maxLines: 400, MaxSteps: maxSteps, Stats: map[string]int64{}}
	k.cond = sync.NewCond(&k.mu)
	return k
}

// Count adds to a statistic (fault fired, probe hit).
func (k *Kernel) Count(name string, n int64) {
	k.mu.Lock()
	k.Stats[name] += n
	k.mu.Unlock()
}

// Logf appends a line to the event log. It never draws from the tape or a clock.
func (k *Kernel) Logf(format string, a ...any) {
	s := fmt.Sprintf(format, a...)
	k.mu.Lock()
	k.logH.Write([]byte(s))
	k.logH.Write([]byte{'\n'})
	if len(k.Lines) < k.maxLines {
		k.Lines = append(k.Lines, s)
	}
	k.mu.Unlock()
}

func (k *Kernel) LogHash() string   { return hex.EncodeToString(k.logH.Sum(nil)[:12]) }
func (k *Kernel) SchedHash() string { return hex.EncodeToString(k.schedH.Sum(nil)[:12]) }

// Go starts a task goroutine (M1 counts it; in M2 it is simply a bubble goroutine).
func (k *Kernel) Go(fn func()) { k.GoNamed("", fn) }

// GoNamed is Go for a task with a fixed name: seams that do not know which task they are
// in (YieldCurrent) park it under that name.
func (k *Kernel) GoNamed(name string, fn func()) {
	k.mu.Lock()
	k.running++
	k.mu.Unlock()
	go func() {
		id := goid()
		k.mu.Lock()
		if k.gids == nil {
			k.gids = map[int64]bool{}
			k.gidName = map[int64]string{}
		}
		k.gids[id] = true
		if name != "" {
			k.gidName[id] = name
		}
		k.mu.Unlock()
		defer func() {
			k.mu.Lock()
			delete(k.gids, id)
			delete(k.gidName, id)
			k.running--
			k.cond.Broadcast()
			k.mu.Unlock()
		}()
		fn()
	}()
}

func goid() int64 {
	var buf [64]byte
	f := strings.Fields(string(buf[:runtime.Stack(buf[:], false)]))
	if len(f) < 2 {
		return -1
	}
	n, _ := strconv.ParseInt(f[1], 10, 64)
	return n
}

// YieldCurrent parks the calling goroutine at a seam of the given kind if it is a named task
// (GoNamed); any other goroutine passes through.
func (k *Kernel) YieldCurrent(kind, detail string) {
	id := goid()
	k.mu.Lock()
	name := k.gidName[id]
	k.mu.Unlock()
	if name == "" {
		return
	}
	k.Count("seam_"+kind, 1)
	k.Park(name, kind, detail, nil)
}

// BlockBegin is called (through the lock shim) by a goroutine that is about to wait for a
// lock of the code under test. A task is then no longer running; it says whether the caller
// is a task.
func (k *Kernel) BlockBegin() bool {
	id := goid()
	k.mu.Lock()
	defer k.mu.Unlock()
	if !k.gids[id] {
		return false
	}
	k.running--
	k.blocked++
	k.cond.Broadcast()
	return true
}

// BlockResume is called by the unlocking goroutine right before it wakes a task that was
// blocked: the task counts as running again before the unlocker can park.
func (k *Kernel) BlockResume() {
	k.mu.Lock()
	k.running++
	k.blocked--
	k.mu.Unlock()
}

// Blocked is the number of tasks waiting for a lock. With nothing running and nothing
// parked they wait forever: a deadlock in the code under test.
func (k *Kernel) Blocked() int {
	k.mu.Lock()
	defer k.mu.Unlock()
	return k.blocked
}

// Park blocks the calling goroutine at a seam until the scheduler releases it.
func (k *Kernel) Park(name, kind, detail string, data any) Decision {
	p := &Parked{Name: name, Kind: kind, Detail: detail, Data: data, resume: make(chan Decision, 1)}
	k.mu.Lock()
	k.seq++
	p.seq = k.seq
	k.parked = append(k.parked, p)
	k.running--
	k.cond.Broadcast()
	k.mu.Unlock()
	return <-p.resume
}

// Quiesce returns when no task can make progress without the scheduler.
func (k *Kernel) Quiesce() {
	k.Quiescing.Store(true)
	defer k.Quiescing.Store(false)
	if k.mode == M2 {
		synctest.Wait()
		return
	}
	k.mu.Lock()
	for k.running > 0 {
		k.cond.Wait()
	}
	k.mu.Unlock()
}

// ParkedList returns the parked tasks ordered by (name, kind, detail): the order
// does not depend on arrival order or goroutine ids.
func (k *Kernel) ParkedList() []*Parked {
	k.mu.Lock()
	l := append([]*Parked(nil), k.parked...)
	k.mu.Unlock()
	sort.SliceStable(l, func(i, j int) bool {
		if l[i].Name != l[j].Name {
			return l[i].Name < l[j].Name
		}
		if l[i].Kind != l[j].Kind {
			return l[i].Kind < l[j].Kind
		}
		return l[i].Detail < l[j].Detail
	})
	return l
}

// Find returns the parked entry of the named task, or nil.
func (k *Kernel) Find(name string) *Parked {
	k.mu.Lock()
	defer k.mu.Unlock()
	for _, p := range k.parked {
		if p.Name == name {
			return p
		}
	}
	return nil
}

// Release lets one parked task continue with decision d. It does not wait.
func (k *Kernel) Release(p *Parked, d Decision) {
	k.mu.Lock()
	for i, q := range k.parked {
		if q == p {
			k.parked = append(k.parked[:i], k.parked[i+1:]...)
			break
		}
	}
	k.running++
	k.Steps++
	if p.Name != k.lastTask {
		if k.lastTask != "" {
			k.Switches++
		}
		k.lastTask = p.Name
	}
	k.schedH.Write([]byte(p.Name + "|" + p.Kind + "|" + d.Op + "\n"))
	k.mu.Unlock()
	p.resume <- d
}

// Run releases p and waits for quiescence.
func (k *Kernel) Run(p *Parked, d Decision) {
	k.Logf("run %s %s", p, d.Op)
	k.Release(p, d)
	k.Quiesce()
}

// Burst releases all of ps at once (concurrent for the race detector) and waits.
func (k *Kernel) Burst(ps []*Parked, d Decision) {
	names := make([]string, len(ps))
	for i, p := range ps {
		names[i] = p.String()
	}
	sort.Strings(names)
	k.Logf("burst %v %s", names, d.Op)
	// Bookkeeping for the whole set under one lock acquisition, then the sends: the
	// scheduler must not synchronise with a released task before releasing the next,
	// or the race detector would see a happens-before chain between burst members.
	k.mu.Lock()
	for _, p := range ps {
		for i, q := range k.parked {
			if q == p {
				k.parked = append(k.parked[:i], k.parked[i+1:]...)
				break
			}
		}
		k.running++
		k.Steps++
		k.schedH.Write([]byte(p.Name + "|" + p.Kind + "|" + d.Op + "\n"))
	}
	if len(ps) > 1 {
		k.Switches++
	}
	k.lastTask = ""
	k.mu.Unlock()
	for _, p := range ps {
		p.resume <- d
	}
	k.Quiesce()
}

// Action counts a world action as a step and notes it in the schedule hash.
func (k *Kernel) Action(what string) {
	k.mu.Lock()
	k.Steps++
	k.schedH.Write([]byte("act|" + what + "\n"))
	k.mu.Unlock()
	k.Logf("act %s", what)
}

// Capped reports whether the run has used up its step or tape budget.
func (k *Kernel) Capped() bool { return k.Steps >= k.MaxSteps || k.T.Capped }

// SameNameGroups returns parked tasks grouped by identical (name,kind,detail).
// Tasks the simulator cannot tell apart are always released together.
func (k *Kernel) Groups() [][]*Parked {
	l := k.ParkedList()
	var out [][]*Parked
	for i := 0; i < len(l); {
		j := i + 1
		for j < len(l) && l[j].Name == l[i].Name && l[j].Kind == l[i].Kind && l[j].Detail == l[i].Detail {
			j++
		}
		out = append(out, l[i:j])
		i = j
	}
	return out
}
