package kernel

import (
	"bufio"
	"encoding/json"
	"fmt"
	"os"
	"runtime/debug"
	"runtime/pprof"
	"strconv"
	"strings"
	"testing"
	"testing/synctest"
	"time"
)

// Violation is a property violation; Sig is the root-cause class used for
// minimisation ("same violation class") and for the known-findings file.
type Violation struct {
	Sig string `json:"sig"`
	Msg string `json:"msg"`
}

// RunResult is one line of the worker's output.
type RunResult struct {
	Ev        string           `json:"ev"`
	Run       uint64           `json:"run"`
	LogHash   string           `json:"log_hash,omitempty"`
	SchedHash string           `json:"sched_hash,omitempty"`
	Key       string           `json:"key,omitempty"` // distinctness key (workload+schedule+faults)
	Nontriv   bool             `json:"nontrivial,omitempty"`
	Steps     int              `json:"steps,omitempty"`
	Switches  int              `json:"switches,omitempty"`
	TapeLen   int              `json:"tape_len,omitempty"`
	Capped    bool             `json:"capped,omitempty"`
	SimNanos  int64            `json:"sim_ns,omitempty"`
	Viol      *Violation       `json:"viol,omitempty"`
	Viols     []Violation      `json:"viols,omitempty"` // all distinct signatures seen in the run
	Stats     map[string]int64 `json:"stats,omitempty"`
	Sample    any              `json:"sample,omitempty"`
	Tape      []int            `json:"tape,omitempty"`
	Lines     []string         `json:"lines,omitempty"`
	// Racy marks a run in which the world let real time-of-arrival decide something the oracle
	// does not depend on (e.g. a timer that may fire while a client is busy): such runs are
	// judged like any other but are not used for the determinism guard.
	Racy bool `json:"racy,omitempty"`
	// Restart asks the harness to end this worker process after the run (abandoned goroutines).
	Restart bool `json:"restart,omitempty"`
}

// RunCtx is what a world gets for one run.
type RunCtx struct {
	TB         *testing.T
	T          *Tape
	Prop       string
	Tier       string
	P          map[string]int
	Run        uint64
	Res        *RunResult
	WantSample bool
	Replay     bool
}

// Param returns a tier constant with a default.
func (rc *RunCtx) Param(name string, def int) int {
	if v, ok := rc.P[name]; ok {
		return v
	}
	return def
}

// Fail records a violation (the first one is the run's verdict; all distinct
// signatures are kept).
func (rc *RunCtx) Fail(sig string, format string, a ...any) {
	v := Violation{Sig: sig, Msg: fmt.Sprintf(format, a...)}
	if len(v.Msg) > 2000 {
		v.Msg = v.Msg[:2000] + "…"
	}
	if rc.Res.Viol == nil {
		rc.Res.Viol = &v
	}
	for _, o := range rc.Res.Viols {
		if o.Sig == sig {
			return
		}
	}
	if len(rc.Res.Viols) < 16 {
		rc.Res.Viols = append(rc.Res.Viols, v)
	}
}

func (rc *RunCtx) Failed() bool { return rc.Res.Viol != nil }

// Finish copies kernel counters into the result.
func (rc *RunCtx) Finish(k *Kernel) {
	r := rc.Res
	r.LogHash = k.LogHash()
	r.SchedHash = k.SchedHash()
	r.Steps += k.Steps
	r.Switches += k.Switches
	r.Capped = r.Capped || k.Capped()
	if r.Stats == nil {
		r.Stats = map[string]int64{}
	}
	k.mu.Lock()
	for n, v := range k.Stats {
		r.Stats[n] += v
	}
	if k.GroupRels > 0 {
		r.Stats["group_releases"] += int64(k.GroupRels)
	}
	k.mu.Unlock()
	if rc.Res.Viol != nil || rc.Replay {
		r.Lines = k.Lines
	}
}

// World runs one simulated execution.
type World func(rc *RunCtx)

// Bubble runs f inside a synctest bubble and returns the text of a panic that
// escaped it (the end-of-bubble deadlock report when goroutines are left blocked).
func Bubble(t *testing.T, f func()) (escaped string) {
	defer func() {
		if r := recover(); r != nil {
			escaped = fmt.Sprint(r)
		}
	}()
	synctest.Test(t, func(t *testing.T) { f() })
	return ""
}

type replayFile struct {
	Property string         `json:"property"`
	Tier     string         `json:"tier"`
	Seed     uint64         `json:"seed"`
	Run      uint64         `json:"run"`
	Params   map[string]int `json:"params"`
	Tape     []int          `json:"tape"`
}

func envU(name string, def uint64) uint64 {
	s := os.Getenv(name)
	if s == "" {
		return def
	}
	v, err := strconv.ParseUint(s, 10, 64)
	if err != nil {
		fmt.Fprintf(os.Stderr, "bad %s=%q\n", name, s)
		os.Exit(2)
	}
	return v
}

// Main is the body of every world's TestSim: it executes the runs named by the
// environment and writes one JSON line before and after each.
func Main(t *testing.T, w World) {
	outPath := os.Getenv("VSIM_OUT")
	if outPath == "" {
		t.Skip("VSIM_OUT not set; this test binary is driven by /verif/bin/vcheck")
	}
	debug.SetTraceback("all")
	debug.SetMaxStack(64 << 20) // runaway recursion dies in a fraction of a second instead of eating 1 GB
	of, err := os.OpenFile(outPath, os.O_CREATE|os.O_WRONLY|os.O_APPEND, 0o644)
	if err != nil {
		fmt.Fprintln(os.Stderr, err)
		os.Exit(2)
	}
	out := bufio.NewWriter(of)
	emit := func(v any) {
		b, err := json.Marshal(v)
		if err != nil {
			fmt.Fprintln(os.Stderr, "marshal:", err)
			os.Exit(2)
		}
		out.Write(b)
		out.WriteByte('\n')
		out.Flush()
	}
	prop := os.Getenv("VSIM_PROP")
	tier := os.Getenv("VSIM_TIER")
	params := map[string]int{}
	if s := os.Getenv("VSIM_PARAMS"); s != "" {
		if err := json.Unmarshal([]byte(s), &params); err != nil {
			fmt.Fprintln(os.Stderr, "VSIM_PARAMS:", err)
			os.Exit(2)
		}
	}
	maxTape := 200000
	if v, ok := params["max_tape"]; ok {
		maxTape = v
	}
	runTimeout := time.Duration(envU("VSIM_RUN_TIMEOUT_S", 0)) * time.Second
	samples := int(envU("VSIM_SAMPLES", 0))
	wantLines := os.Getenv("VSIM_LINES") != ""

	one := func(run uint64, tape *Tape, replay bool, wantSample bool) {
		emit(map[string]any{"ev": "start", "run": run})
		fmt.Fprintf(os.Stderr, "RUN run=%d\n", run)
		res := &RunResult{Ev: "end", Run: run, Stats: map[string]int64{}}
		rc := &RunCtx{TB: t, T: tape, Prop: prop, Tier: tier, P: params, Run: run, Res: res, WantSample: wantSample, Replay: replay || wantLines}
		if p := os.Getenv("VSIM_TAPE_OUT"); p != "" {
			if err := tape.StreamTo(p); err != nil {
				fmt.Fprintln(os.Stderr, err)
				os.Exit(2)
			}
		}
		// a run that does not come back is build trouble of the simulator (a deadlock of the code
		// under test is detected by the worlds themselves): say so quickly, with the stacks
		var wd *time.Timer
		if runTimeout > 0 {
			wd = time.AfterFunc(runTimeout, func() {
				fmt.Fprintf(os.Stderr, "WATCHDOG: run %d did not finish within %v\n", run, runTimeout)
				pprof.Lookup("goroutine").WriteTo(os.Stderr, 1)
				os.Exit(3)
			})
		}
		w(rc)
		if wd != nil {
			wd.Stop()
		}
		tape.CloseStream()
		Active = nil
		res.TapeLen = tape.Len()
		if tape.Capped {
			res.Capped = true
		}
		if res.Viol != nil || replay {
			res.Tape = append([]int(nil), tape.Recorded()...)
		}
		emit(res)
		if res.Restart && !replay {
			emit(map[string]any{"ev": "restart", "next": run + 1})
			of.Close()
			os.Exit(0)
		}
	}

	if tf := os.Getenv("VSIM_TAPE"); tf != "" {
		b, err := os.ReadFile(tf)
		if err != nil {
			fmt.Fprintln(os.Stderr, err)
			os.Exit(2)
		}
		var rf replayFile
		if err := json.Unmarshal(b, &rf); err != nil {
			fmt.Fprintln(os.Stderr, "replay file:", err)
			os.Exit(2)
		}
		one(rf.Run, NewReplayTape(rf.Tape, maxTape), true, true)
		return
	}
	seed := envU("VSIM_SEED", 1)
	from, to := envU("VSIM_FROM", 0), envU("VSIM_TO", 1)
	deadline := time.Time{}
	if s := envU("VSIM_WALL_S", 0); s > 0 {
		deadline = time.Now().Add(time.Duration(s) * time.Second)
	}
	for r := from; r < to; r++ {
		if !deadline.IsZero() && time.Now().After(deadline) {
			emit(map[string]any{"ev": "wall", "next": r})
			break
		}
		one(r, NewTape(seed, r, maxTape), false, int(r-from) < samples)
	}
}

// Short returns at most n bytes of s for messages.
func Short(s string, n int) string {
	if len(s) <= n {
		return s
	}
	return s[:n] + fmt.Sprintf("…(+%d)", len(s)-n)
}

// FirstLines returns the first n lines of s.
func FirstLines(s string, n int) string {
	l := strings.SplitN(s, "\n", n+1)
	if len(l) > n {
		l = l[:n]
	}
	return strings.Join(l, "\n")
}
