// Package simerrgroup stands in for golang.org/x/sync/errgroup in packages under test whose
// group members are short computations (cmd/templ/imports). Which member's error Wait returns
// depends, with the real package, on which goroutine the Go scheduler lets fail first: a choice
// the simulator does not own, so a run would not be a function of its tape. Here every member
// runs to completion inside Go, in the order given: one of the schedules the real package
// allows (the first goroutine finishes before the second is started).
package simerrgroup

import (
	"context"
	"sync"
)

type Group struct {
	cancel func(error)
	once   sync.Once
	err    error
}

func WithContext(ctx context.Context) (*Group, context.Context) {
	ctx, cancel := context.WithCancelCause(ctx)
	return &Group{cancel: cancel}, ctx
}

func (g *Group) Go(f func() error) {
	if err := f(); err != nil {
		g.once.Do(func() {
			g.err = err
			if g.cancel != nil {
				g.cancel(g.err)
			}
		})
	}
}

func (g *Group) TryGo(f func() error) bool { g.Go(f); return true }

func (g *Group) SetLimit(n int) {}

func (g *Group) Wait() error {
	if g.cancel != nil {
		g.cancel(g.err)
	}
	return g.err
}
