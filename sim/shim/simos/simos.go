// Package simos stands in for "os" in the packages under test. Everything not
// defined here is re-exported from the real package by a generated file.
package simos
