// Package simos stands in for "os" in the packages under test (import rewrite on a
// scratch copy). Everything not defined here is re-exported from the real package by
// a generated file. The functions below consult a hook before touching the real file
// system: the hook may park the calling goroutine (scheduler seam) and may return a
// fault. Without a hook they are the real functions.
package simos

import (
	"io/fs"
	real "os"
	"path/filepath"
	"sync/atomic"
	"syscall"
	"time"
)

// Fault is the hook's verdict for one operation.
type Fault struct {
	Kind string // "", "eio", "enospc", "short"
}

// HookT is installed by a world for the duration of a run.
type HookT struct {
	// Before is called before the operation; it may block.
	Before func(op, path string) Fault
	// After, when set, is called when a WriteFile has finished (successfully or not).
	After func(op, path string)
	// Now, when set, supplies the modification time given to every written file.
	Now func() time.Time
	// Overlay, when set, is consulted by ReadFile and Stat first: a simulated file that
	// exists only in the run's model (content and modification time).
	Overlay func(path string) (content []byte, mtime time.Time, ok bool)
}

type overlayInfo struct {
	name string
	size int64
	mt   time.Time
}

func (o overlayInfo) Name() string        { return o.name }
func (o overlayInfo) Size() int64         { return o.size }
func (o overlayInfo) Mode() real.FileMode { return 0o644 }
func (o overlayInfo) ModTime() time.Time  { return o.mt }
func (o overlayInfo) IsDir() bool         { return false }
func (o overlayInfo) Sys() any            { return nil }

func overlay(path string) ([]byte, time.Time, bool) {
	h := hook.Load()
	if h == nil || h.Overlay == nil {
		return nil, time.Time{}, false
	}
	return h.Overlay(path)
}

var hook atomic.Pointer[HookT]

// SetHook installs (or, with nil, removes) the hook.
func SetHook(h *HookT) { hook.Store(h) }

func before(op, path string) (Fault, *HookT) {
	h := hook.Load()
	if h == nil || h.Before == nil {
		return Fault{}, h
	}
	return h.Before(op, path), h
}

func pathErr(op, path string, errno syscall.Errno) error {
	return &fs.PathError{Op: op, Path: path, Err: errno}
}

func Stat(name string) (real.FileInfo, error) {
	if f, _ := before("Stat", name); f.Kind == "eio" {
		return nil, pathErr("stat", name, syscall.EIO)
	}
	if c, mt, ok := overlay(name); ok {
		return overlayInfo{name: filepath.Base(name), size: int64(len(c)), mt: mt}, nil
	}
	return real.Stat(name)
}

func Lstat(name string) (real.FileInfo, error) {
	if f, _ := before("Lstat", name); f.Kind == "eio" {
		return nil, pathErr("lstat", name, syscall.EIO)
	}
	return real.Lstat(name)
}

func ReadFile(name string) ([]byte, error) {
	f, _ := before("ReadFile", name)
	switch f.Kind {
	case "eio":
		return nil, pathErr("read", name, syscall.EIO)
	}
	if c, _, ok := overlay(name); ok {
		return append([]byte(nil), c...), nil
	}
	return real.ReadFile(name)
}

func WriteFile(name string, data []byte, perm real.FileMode) error {
	f, h := before("WriteFile", name)
	if h != nil && h.After != nil {
		defer h.After("WriteFile", name)
	}
	switch f.Kind {
	case "enospc":
		return pathErr("write", name, syscall.ENOSPC)
	case "short":
		_ = real.WriteFile(name, data[:len(data)/2], perm)
		stamp(h, name)
		return pathErr("write", name, syscall.ENOSPC)
	case "eio":
		return pathErr("write", name, syscall.EIO)
	}
	err := real.WriteFile(name, data, perm)
	if err == nil {
		stamp(h, name)
	}
	return err
}

func stamp(h *HookT, name string) {
	if h != nil && h.Now != nil {
		t := h.Now()
		_ = real.Chtimes(name, t, t)
	}
}

func Remove(name string) error {
	if f, _ := before("Remove", name); f.Kind == "eio" {
		return pathErr("remove", name, syscall.EIO)
	}
	return real.Remove(name)
}

func Open(name string) (*real.File, error) {
	if f, _ := before("Open", name); f.Kind == "eio" {
		return nil, pathErr("open", name, syscall.EIO)
	}
	return real.Open(name)
}

func Create(name string) (*real.File, error) {
	if f, _ := before("Create", name); f.Kind == "enospc" {
		return nil, pathErr("open", name, syscall.ENOSPC)
	}
	return real.Create(name)
}

// DirFS wraps the real directory file system so that directory reads are seams too.
func DirFS(dir string) fs.FS { return simFS{FS: real.DirFS(dir), dir: dir} }

type simFS struct {
	fs.FS
	dir string
}

func (s simFS) Open(name string) (fs.File, error) {
	before("Open", filepath.Join(s.dir, name))
	return s.FS.Open(name)
}

func (s simFS) ReadDir(name string) ([]fs.DirEntry, error) {
	before("ReadDir", filepath.Join(s.dir, name))
	return fs.ReadDir(s.FS, name)
}

func (s simFS) Stat(name string) (fs.FileInfo, error) {
	before("Stat", filepath.Join(s.dir, name))
	return fs.Stat(s.FS, name)
}
