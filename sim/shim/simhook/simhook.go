// Package simhook holds the seams prep inserts into a scratch copy of the code under
// test. GoStart is placed at the top of every `go func() { ... }()` body of the packages
// a world asks for, so that "the goroutine has been created but has not run yet" is a
// state the scheduler can hold. Without a hook it does nothing.
package simhook

import "sync/atomic"

var goStart atomic.Pointer[func(site string)]

// SetGoStart installs (or, with nil, removes) the hook.
func SetGoStart(f func(site string)) {
	if f == nil {
		goStart.Store(nil)
		return
	}
	goStart.Store(&f)
}

// GoStart is called first thing by instrumented goroutines.
func GoStart(site string) {
	if f := goStart.Load(); f != nil {
		(*f)(site)
	}
}

var yield atomic.Pointer[func(site string)]

// SetYield installs (or, with nil, removes) the hook behind Yield.
func SetYield(f func(site string)) {
	if f == nil {
		yield.Store(nil)
		return
	}
	yield.Store(&f)
}

// Yield is placed by prep after statements that may wake another goroutine (close(ch)).
func Yield(site string) {
	if f := yield.Load(); f != nil {
		(*f)(site)
	}
}
