// Package simhook holds the seams prep inserts into a scratch copy of the code under
// test. GoStart is placed at the top of every `go func() { ... }()` body of the packages
// a world asks for, so that "the goroutine has been created but has not run yet" is a
// state the scheduler can hold. Without a hook it does nothing.
package simhook

import (
	"context"
	"net"
	"net/http"
	"sync/atomic"
)

var goStart atomic.Pointer[func(site string)]

// SetGoStart installs (or, with nil, removes) the hook.
func SetGoStart(f func(site string)) {
	if f == nil {
		goStart.Store(nil)
		return
	}
	goStart.Store(&f)
}

// GoStart is called first thing by instrumented goroutines.
func GoStart(site string) {
	if f := goStart.Load(); f != nil {
		(*f)(site)
	}
}

var yield atomic.Pointer[func(site string)]

// SetYield installs (or, with nil, removes) the hook behind Yield.
func SetYield(f func(site string)) {
	if f == nil {
		yield.Store(nil)
		return
	}
	yield.Store(&f)
}

// Yield is placed by prep after statements that may wake another goroutine (close(ch)).
func Yield(site string) {
	if f := yield.Load(); f != nil {
		(*f)(site)
	}
}

var listen atomic.Pointer[func(addr string) net.Listener]

// SetListen installs (or, with nil, removes) the listener factory of the world: servers that
// the code under test starts on a TCP address are then served on that listener instead.
func SetListen(f func(addr string) net.Listener) {
	if f == nil {
		listen.Store(nil)
		return
	}
	listen.Store(&f)
}

// ListenAndServe stands in for http.ListenAndServe (prep mode httpserve).
func ListenAndServe(addr string, h http.Handler) error {
	if f := listen.Load(); f != nil {
		return (&http.Server{Addr: addr, Handler: h}).Serve((*f)(addr))
	}
	return http.ListenAndServe(addr, h)
}

// ServerListenAndServe stands in for (*http.Server).ListenAndServe; s is an http.Server or a
// pointer to one. The server keeps every setting the code under test gave it.
func ServerListenAndServe(s any) error {
	var srv *http.Server
	switch v := s.(type) {
	case *http.Server:
		srv = v
	case http.Server:
		srv = &v
	default:
		panic("simhook: ListenAndServe on something that is not an http.Server")
	}
	if f := listen.Load(); f != nil {
		return srv.Serve((*f)(srv.Addr))
	}
	return srv.ListenAndServe()
}

// NetListen stands in for net.Listen.
func NetListen(network, addr string) (net.Listener, error) {
	if f := listen.Load(); f != nil {
		return (*f)(addr), nil
	}
	return net.Listen(network, addr)
}

// ListenConfigListen stands in for (*net.ListenConfig).Listen; lc is a net.ListenConfig or a
// pointer to one.
func ListenConfigListen(lc any, ctx context.Context, network, addr string) (net.Listener, error) {
	if f := listen.Load(); f != nil {
		return (*f)(addr), nil
	}
	switch v := lc.(type) {
	case *net.ListenConfig:
		return v.Listen(ctx, network, addr)
	case net.ListenConfig:
		return v.Listen(ctx, network, addr)
	}
	panic("simhook: Listen on something that is not a net.ListenConfig")
}
