// Package simsync stands in for "sync" in the packages under test (import rewrite on
// a scratch copy). Mutex and RWMutex block on channels, which testing/synctest treats
// as durable blocking, so the scheduler can park a task that holds a lock. Pool is a
// deterministic, adversarial pool driven by the run's tape. Everything else is the
// real thing. Outside a simulated run the behaviour is that of package sync.
package simsync

import (
	"sync"
	"sync/atomic"
)

type (
	WaitGroup = sync.WaitGroup
	Once      = sync.Once
	Cond      = sync.Cond
	Map       = sync.Map
	Locker    = sync.Locker
)

func NewCond(l Locker) *Cond { return sync.NewCond(l) }

func OnceFunc(f func()) func()                                 { return sync.OnceFunc(f) }
func OnceValue[T any](f func() T) func() T                     { return sync.OnceValue(f) }
func OnceValues[T1, T2 any](f func() (T1, T2)) func() (T1, T2) { return sync.OnceValues(f) }

// epoch is bumped at the start of every simulated run: channels made inside one
// synctest bubble must not be used from another, so lazily created lock channels of
// long-lived (package-level) mutexes are re-made per run. Locks are free between runs.
var epoch atomic.Int64

// NewEpoch is called by worlds at the start of a run.
func NewEpoch() { epoch.Add(1) }

// Mutex is a one-slot channel.
type Mutex struct {
	g  sync.Mutex
	ch chan struct{}
	ep int64
}

func (m *Mutex) c() chan struct{} {
	m.g.Lock()
	if e := epoch.Load(); m.ch == nil || m.ep != e {
		m.ch = make(chan struct{}, 1)
		m.ep = e
	}
	c := m.ch
	m.g.Unlock()
	return c
}

func (m *Mutex) Lock() { m.c() <- struct{}{} }

func (m *Mutex) TryLock() bool {
	select {
	case m.c() <- struct{}{}:
		return true
	default:
		return false
	}
}

func (m *Mutex) Unlock() {
	select {
	case <-m.c():
	default:
		panic("sync: unlock of unlocked mutex")
	}
	if f := afterUnlock.Load(); f != nil {
		(*f)()
	}
}

// afterUnlock, when set by a world, is called by every Unlock right after the lock has
// been released: a lock hand-over is a point where another goroutine may legitimately run
// before this one continues, and the world may park the caller there.
var afterUnlock atomic.Pointer[func()]

// SetAfterUnlock installs (or, with nil, removes) the hand-over hook.
func SetAfterUnlock(f func()) {
	if f == nil {
		afterUnlock.Store(nil)
		return
	}
	afterUnlock.Store(&f)
}

// RWMutex: writers hold w for the whole critical section; readers pass through w and
// keep a token out of noReaders while any reader is inside.
type RWMutex struct {
	w         Mutex
	r         Mutex
	readers   int
	g         sync.Mutex
	noReaders chan struct{}
	ep        int64
}

func (m *RWMutex) nr() chan struct{} {
	m.g.Lock()
	if e := epoch.Load(); m.noReaders == nil || m.ep != e {
		m.noReaders = make(chan struct{}, 1)
		m.noReaders <- struct{}{}
		m.ep = e
		m.readers = 0
	}
	c := m.noReaders
	m.g.Unlock()
	return c
}

func (m *RWMutex) RLock() {
	nr := m.nr()
	m.w.Lock()
	m.r.Lock()
	m.readers++
	if m.readers == 1 {
		<-nr
	}
	m.r.Unlock()
	m.w.Unlock()
}

func (m *RWMutex) RUnlock() {
	nr := m.nr()
	m.r.Lock()
	m.readers--
	if m.readers < 0 {
		panic("sync: RUnlock of unlocked RWMutex")
	}
	if m.readers == 0 {
		nr <- struct{}{}
	}
	m.r.Unlock()
}

func (m *RWMutex) Lock() {
	nr := m.nr()
	m.w.Lock()
	<-nr
}

func (m *RWMutex) Unlock() {
	m.nr() <- struct{}{}
	m.w.Unlock()
}

func (m *RWMutex) TryLock() bool {
	if !m.w.TryLock() {
		return false
	}
	select {
	case <-m.nr():
		return true
	default:
		m.w.Unlock()
		return false
	}
}

func (m *RWMutex) TryRLock() bool {
	if !m.w.TryLock() {
		return false
	}
	nr := m.nr()
	m.r.Lock()
	m.readers++
	if m.readers == 1 {
		<-nr
	}
	m.r.Unlock()
	m.w.Unlock()
	return true
}

func (m *RWMutex) RLocker() Locker { return (*rlocker)(m) }

type rlocker RWMutex

func (r *rlocker) Lock()   { (*RWMutex)(r).RLock() }
func (r *rlocker) Unlock() { (*RWMutex)(r).RUnlock() }

// Chooser is the tape interface the pool needs.
type Chooser interface {
	Choose(n int, label string) int
}

type poolPolicy struct {
	mu   sync.Mutex
	tape Chooser
	// mode: 0 LIFO, 1 random released object, 2 always fresh, 3 tape decides per Get.
	mode                int
	gets, reused, fresh int64
}

// policy is nil outside deciding runs: pools then behave exactly like sync.Pool, and
// the check is a lock-free load so that the shim adds no happens-before edges between
// tasks (which would blind the race detector in burst runs).
var policy atomic.Pointer[poolPolicy]

// SetPoolPolicy installs the pool behaviour for the coming run (nil tape = real sync.Pool).
func SetPoolPolicy(t Chooser, mode int) {
	if t == nil {
		policy.Store(nil)
		return
	}
	policy.Store(&poolPolicy{tape: t, mode: mode})
}

// PoolCounters returns (gets, reused, fresh) since SetPoolPolicy.
func PoolCounters() (int64, int64, int64) {
	p := policy.Load()
	if p == nil {
		return 0, 0, 0
	}
	p.mu.Lock()
	defer p.mu.Unlock()
	return p.gets, p.reused, p.fresh
}

// Pool has sync.Pool's shape. Under a policy, Get returns any previously released
// object or a new one, by tape choice: a superset of what sync.Pool may do.
type Pool struct {
	New func() any

	once  sync.Once
	real  sync.Pool
	items []any
	ep    int64
}

func (p *Pool) Get() any {
	pol := policy.Load()
	if pol == nil {
		p.once.Do(func() { p.real.New = p.New })
		return p.real.Get()
	}
	pol.mu.Lock()
	defer pol.mu.Unlock()
	if e := epoch.Load(); p.ep != e {
		p.items, p.ep = nil, e
	}
	pol.gets++
	mode := pol.mode
	if mode == 3 {
		mode = pol.tape.Choose(3, "pool-get-mode")
	}
	if len(p.items) == 0 || mode == 2 {
		pol.fresh++
		if p.New == nil {
			return nil
		}
		return p.New()
	}
	i := len(p.items) - 1
	if mode == 1 {
		i = pol.tape.Choose(len(p.items), "pool-get-index")
	}
	x := p.items[i]
	p.items = append(p.items[:i], p.items[i+1:]...)
	pol.reused++
	return x
}

func (p *Pool) Put(x any) {
	if x == nil {
		return
	}
	pol := policy.Load()
	if pol == nil {
		p.once.Do(func() { p.real.New = p.New })
		p.real.Put(x)
		return
	}
	pol.mu.Lock()
	if e := epoch.Load(); p.ep != e {
		p.items, p.ep = nil, e
	}
	if len(p.items) < 64 {
		p.items = append(p.items, x)
	}
	pol.mu.Unlock()
}
