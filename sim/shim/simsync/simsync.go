// Package simsync stands in for "sync" in the packages under test (import rewrite on
// a scratch copy). Mutex and RWMutex block on channels, which testing/synctest treats
// as durable blocking, so the scheduler can park a task that holds a lock. Pool is a
// deterministic, adversarial pool driven by the run's tape. Everything else is the
// real thing. Outside a simulated run the behaviour is that of package sync.
package simsync

import (
	"sync"
	"sync/atomic"
)

type (
	WaitGroup = sync.WaitGroup
	Once      = sync.Once
	Cond      = sync.Cond
	Map       = sync.Map
	Locker    = sync.Locker
)

func NewCond(l Locker) *Cond { return sync.NewCond(l) }

func OnceFunc(f func()) func()                                 { return sync.OnceFunc(f) }
func OnceValue[T any](f func() T) func() T                     { return sync.OnceValue(f) }
func OnceValues[T1, T2 any](f func() (T1, T2)) func() (T1, T2) { return sync.OnceValues(f) }

// epoch is bumped at the start of every simulated run: channels made inside one
// synctest bubble must not be used from another, so lazily created lock channels of
// long-lived (package-level) mutexes are re-made per run. Locks are free between runs.
var epoch atomic.Int64

// NewEpoch is called by worlds at the start of a run.
func NewEpoch() { epoch.Add(1) }

// BlockHooks let a kernel that counts running tasks (mode M1) know when a task blocks on a
// lock of the code under test and when it is given the lock. Begin is called by the blocking
// goroutine and says whether that goroutine is one the kernel counts; Resume is called by the
// unlocking goroutine for a counted waiter right before it is woken. In synctest worlds no
// hooks are needed: waiting on a channel is durable blocking there.
type BlockHooks struct {
	Begin  func() (counted bool)
	Resume func()
}

var blockHooks atomic.Pointer[BlockHooks]

// SetBlockHooks installs (or, with nil, removes) the hooks.
func SetBlockHooks(h *BlockHooks) { blockHooks.Store(h) }

type waiter struct {
	ch      chan struct{}
	write   bool
	counted bool
}

func newWaiter(write bool) *waiter {
	w := &waiter{ch: make(chan struct{}), write: write}
	if h := blockHooks.Load(); h != nil {
		w.counted = h.Begin()
	}
	return w
}

func (w *waiter) wake() {
	if w.counted {
		if h := blockHooks.Load(); h != nil {
			h.Resume()
		}
	}
	close(w.ch)
}

// Mutex hands the lock over directly to the longest-waiting goroutine (FIFO): which waiter
// gets it never depends on the Go scheduler. Waiters block on a channel of their own.
type Mutex struct {
	g      sync.Mutex
	locked bool
	q      []*waiter
	ep     int64
}

// fresh forgets state from an earlier run (called with g held).
func (m *Mutex) fresh() {
	if e := epoch.Load(); m.ep != e {
		m.locked, m.q, m.ep = false, nil, e
	}
}

func (m *Mutex) Lock() {
	m.g.Lock()
	m.fresh()
	if !m.locked {
		m.locked = true
		m.g.Unlock()
		return
	}
	w := newWaiter(true)
	m.q = append(m.q, w)
	m.g.Unlock()
	<-w.ch // the unlocker passed the lock on to us
}

func (m *Mutex) TryLock() bool {
	m.g.Lock()
	defer m.g.Unlock()
	m.fresh()
	if m.locked {
		return false
	}
	m.locked = true
	return true
}

func (m *Mutex) Unlock() {
	m.g.Lock()
	m.fresh()
	if !m.locked {
		m.g.Unlock()
		panic("sync: unlock of unlocked mutex")
	}
	if len(m.q) > 0 {
		w := m.q[0]
		m.q = m.q[1:]
		w.wake() // stays locked: ownership moves to w
	} else {
		m.locked = false
	}
	m.g.Unlock()
	if f := afterUnlock.Load(); f != nil {
		(*f)()
	}
}

// afterUnlock, when set by a world, is called by every Unlock right after the lock has
// been released: a lock hand-over is a point where another goroutine may legitimately run
// before this one continues, and the world may park the caller there.
var afterUnlock atomic.Pointer[func()]

// SetAfterUnlock installs (or, with nil, removes) the hand-over hook.
func SetAfterUnlock(f func()) {
	if f == nil {
		afterUnlock.Store(nil)
		return
	}
	afterUnlock.Store(&f)
}

// RWMutex: one FIFO queue of readers and writers; a waiting writer holds back later readers
// (as sync.RWMutex does); grants are made by the unlocking goroutine.
type RWMutex struct {
	g       sync.Mutex
	writer  bool
	readers int
	q       []*waiter
	ep      int64
}

func (m *RWMutex) fresh() {
	if e := epoch.Load(); m.ep != e {
		m.writer, m.readers, m.q, m.ep = false, 0, nil, e
	}
}

// grant wakes whoever may enter now (called with g held).
func (m *RWMutex) grant() {
	for len(m.q) > 0 {
		w := m.q[0]
		if w.write {
			if m.readers == 0 && !m.writer {
				m.writer = true
				m.q = m.q[1:]
				w.wake()
			}
			return
		}
		if m.writer {
			return
		}
		m.readers++
		m.q = m.q[1:]
		w.wake()
	}
}

func (m *RWMutex) RLock() {
	m.g.Lock()
	m.fresh()
	if !m.writer && len(m.q) == 0 {
		m.readers++
		m.g.Unlock()
		return
	}
	w := newWaiter(false)
	m.q = append(m.q, w)
	m.g.Unlock()
	<-w.ch
}

func (m *RWMutex) RUnlock() {
	m.g.Lock()
	m.fresh()
	m.readers--
	if m.readers < 0 {
		m.g.Unlock()
		panic("sync: RUnlock of unlocked RWMutex")
	}
	if m.readers == 0 {
		m.grant()
	}
	m.g.Unlock()
	if f := afterUnlock.Load(); f != nil {
		(*f)()
	}
}

func (m *RWMutex) Lock() {
	m.g.Lock()
	m.fresh()
	if !m.writer && m.readers == 0 && len(m.q) == 0 {
		m.writer = true
		m.g.Unlock()
		return
	}
	w := newWaiter(true)
	m.q = append(m.q, w)
	m.g.Unlock()
	<-w.ch
}

func (m *RWMutex) Unlock() {
	m.g.Lock()
	m.fresh()
	if !m.writer {
		m.g.Unlock()
		panic("sync: Unlock of unlocked RWMutex")
	}
	m.writer = false
	m.grant()
	m.g.Unlock()
	if f := afterUnlock.Load(); f != nil {
		(*f)()
	}
}

func (m *RWMutex) TryLock() bool {
	m.g.Lock()
	defer m.g.Unlock()
	m.fresh()
	if m.writer || m.readers > 0 || len(m.q) > 0 {
		return false
	}
	m.writer = true
	return true
}

func (m *RWMutex) TryRLock() bool {
	m.g.Lock()
	defer m.g.Unlock()
	m.fresh()
	if m.writer || len(m.q) > 0 {
		return false
	}
	m.readers++
	return true
}

func (m *RWMutex) RLocker() Locker { return (*rlocker)(m) }

type rlocker RWMutex

func (r *rlocker) Lock()   { (*RWMutex)(r).RLock() }
func (r *rlocker) Unlock() { (*RWMutex)(r).RUnlock() }

// Chooser is the tape interface the pool needs.
type Chooser interface {
	Choose(n int, label string) int
}

type poolPolicy struct {
	mu   sync.Mutex
	tape Chooser
	// mode: 0 LIFO, 1 random released object, 2 always fresh, 3 tape decides per Get.
	mode                int
	gets, reused, fresh int64
}

// policy is nil outside deciding runs: pools then behave exactly like sync.Pool, and
// the check is a lock-free load so that the shim adds no happens-before edges between
// tasks (which would blind the race detector in burst runs).
var policy atomic.Pointer[poolPolicy]

// SetPoolPolicy installs the pool behaviour for the coming run (nil tape = real sync.Pool).
func SetPoolPolicy(t Chooser, mode int) {
	if t == nil {
		policy.Store(nil)
		return
	}
	policy.Store(&poolPolicy{tape: t, mode: mode})
}

// PoolCounters returns (gets, reused, fresh) since SetPoolPolicy.
func PoolCounters() (int64, int64, int64) {
	p := policy.Load()
	if p == nil {
		return 0, 0, 0
	}
	p.mu.Lock()
	defer p.mu.Unlock()
	return p.gets, p.reused, p.fresh
}

// Pool has sync.Pool's shape. Under a policy, Get returns any previously released
// object or a new one, by tape choice: a superset of what sync.Pool may do.
type Pool struct {
	New func() any

	once  sync.Once
	real  sync.Pool
	items []any
	ep    int64
}

func (p *Pool) Get() any {
	pol := policy.Load()
	if pol == nil {
		p.once.Do(func() { p.real.New = p.New })
		return p.real.Get()
	}
	pol.mu.Lock()
	defer pol.mu.Unlock()
	if e := epoch.Load(); p.ep != e {
		p.items, p.ep = nil, e
	}
	pol.gets++
	mode := pol.mode
	if mode == 3 {
		mode = pol.tape.Choose(3, "pool-get-mode")
	}
	if len(p.items) == 0 || mode == 2 {
		pol.fresh++
		if p.New == nil {
			return nil
		}
		return p.New()
	}
	i := len(p.items) - 1
	if mode == 1 {
		i = pol.tape.Choose(len(p.items), "pool-get-index")
	}
	x := p.items[i]
	p.items = append(p.items[:i], p.items[i+1:]...)
	pol.reused++
	return x
}

func (p *Pool) Put(x any) {
	if x == nil {
		return
	}
	pol := policy.Load()
	if pol == nil {
		p.once.Do(func() { p.real.New = p.New })
		p.real.Put(x)
		return
	}
	pol.mu.Lock()
	if e := epoch.Load(); p.ep != e {
		p.items, p.ep = nil, e
	}
	if len(p.items) < 64 {
		p.items = append(p.items, x)
	}
	pol.mu.Unlock()
}
