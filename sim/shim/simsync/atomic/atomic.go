// Package atomic stands in for "sync/atomic" in the packages under test (import rewrite on a
// scratch copy). Every operation is the real one, preceded by a yield to the world's hook: an
// atomic operation is a synchronisation point, and a lock-free algorithm is only as good as
// its behaviour under every interleaving of those points. Outside a simulated run, and on
// goroutines the world does not schedule, the hook is absent or does nothing.
package atomic

import (
	"sync/atomic"
	"unsafe"
)

var hook atomic.Pointer[func(op string)]

// SetYield installs (or, with nil, removes) the function called before every operation.
func SetYield(f func(op string)) {
	if f == nil {
		hook.Store(nil)
		return
	}
	hook.Store(&f)
}

func yield(op string) {
	if f := hook.Load(); f != nil {
		(*f)(op)
	}
}

func AddInt32(addr *int32, delta int32) int32     { yield("add"); return atomic.AddInt32(addr, delta) }
func AddInt64(addr *int64, delta int64) int64     { yield("add"); return atomic.AddInt64(addr, delta) }
func AddUint32(addr *uint32, delta uint32) uint32 { yield("add"); return atomic.AddUint32(addr, delta) }
func AddUint64(addr *uint64, delta uint64) uint64 { yield("add"); return atomic.AddUint64(addr, delta) }
func AddUintptr(addr *uintptr, delta uintptr) uintptr {
	yield("add")
	return atomic.AddUintptr(addr, delta)
}

func LoadInt32(addr *int32) int32       { yield("load"); return atomic.LoadInt32(addr) }
func LoadInt64(addr *int64) int64       { yield("load"); return atomic.LoadInt64(addr) }
func LoadUint32(addr *uint32) uint32    { yield("load"); return atomic.LoadUint32(addr) }
func LoadUint64(addr *uint64) uint64    { yield("load"); return atomic.LoadUint64(addr) }
func LoadUintptr(addr *uintptr) uintptr { yield("load"); return atomic.LoadUintptr(addr) }
func LoadPointer(addr *unsafe.Pointer) unsafe.Pointer {
	yield("load")
	return atomic.LoadPointer(addr)
}

func StoreInt32(addr *int32, val int32)       { yield("store"); atomic.StoreInt32(addr, val) }
func StoreInt64(addr *int64, val int64)       { yield("store"); atomic.StoreInt64(addr, val) }
func StoreUint32(addr *uint32, val uint32)    { yield("store"); atomic.StoreUint32(addr, val) }
func StoreUint64(addr *uint64, val uint64)    { yield("store"); atomic.StoreUint64(addr, val) }
func StoreUintptr(addr *uintptr, val uintptr) { yield("store"); atomic.StoreUintptr(addr, val) }
func StorePointer(addr *unsafe.Pointer, val unsafe.Pointer) {
	yield("store")
	atomic.StorePointer(addr, val)
}

func SwapInt32(addr *int32, new int32) int32     { yield("swap"); return atomic.SwapInt32(addr, new) }
func SwapInt64(addr *int64, new int64) int64     { yield("swap"); return atomic.SwapInt64(addr, new) }
func SwapUint32(addr *uint32, new uint32) uint32 { yield("swap"); return atomic.SwapUint32(addr, new) }
func SwapUint64(addr *uint64, new uint64) uint64 { yield("swap"); return atomic.SwapUint64(addr, new) }
func SwapUintptr(addr *uintptr, new uintptr) uintptr {
	yield("swap")
	return atomic.SwapUintptr(addr, new)
}
func SwapPointer(addr *unsafe.Pointer, new unsafe.Pointer) unsafe.Pointer {
	yield("swap")
	return atomic.SwapPointer(addr, new)
}

func CompareAndSwapInt32(addr *int32, old, new int32) bool {
	yield("cas")
	return atomic.CompareAndSwapInt32(addr, old, new)
}
func CompareAndSwapInt64(addr *int64, old, new int64) bool {
	yield("cas")
	return atomic.CompareAndSwapInt64(addr, old, new)
}
func CompareAndSwapUint32(addr *uint32, old, new uint32) bool {
	yield("cas")
	return atomic.CompareAndSwapUint32(addr, old, new)
}
func CompareAndSwapUint64(addr *uint64, old, new uint64) bool {
	yield("cas")
	return atomic.CompareAndSwapUint64(addr, old, new)
}
func CompareAndSwapUintptr(addr *uintptr, old, new uintptr) bool {
	yield("cas")
	return atomic.CompareAndSwapUintptr(addr, old, new)
}
func CompareAndSwapPointer(addr *unsafe.Pointer, old, new unsafe.Pointer) bool {
	yield("cas")
	return atomic.CompareAndSwapPointer(addr, old, new)
}

// The typed values wrap the real ones.

type Bool struct{ v atomic.Bool }

func (x *Bool) Load() bool                        { yield("load"); return x.v.Load() }
func (x *Bool) Store(val bool)                    { yield("store"); x.v.Store(val) }
func (x *Bool) Swap(new bool) bool                { yield("swap"); return x.v.Swap(new) }
func (x *Bool) CompareAndSwap(old, new bool) bool { yield("cas"); return x.v.CompareAndSwap(old, new) }

type Int32 struct{ v atomic.Int32 }

func (x *Int32) Load() int32          { yield("load"); return x.v.Load() }
func (x *Int32) Store(val int32)      { yield("store"); x.v.Store(val) }
func (x *Int32) Swap(new int32) int32 { yield("swap"); return x.v.Swap(new) }
func (x *Int32) CompareAndSwap(old, new int32) bool {
	yield("cas")
	return x.v.CompareAndSwap(old, new)
}
func (x *Int32) Add(delta int32) int32 { yield("add"); return x.v.Add(delta) }

type Int64 struct{ v atomic.Int64 }

func (x *Int64) Load() int64          { yield("load"); return x.v.Load() }
func (x *Int64) Store(val int64)      { yield("store"); x.v.Store(val) }
func (x *Int64) Swap(new int64) int64 { yield("swap"); return x.v.Swap(new) }
func (x *Int64) CompareAndSwap(old, new int64) bool {
	yield("cas")
	return x.v.CompareAndSwap(old, new)
}
func (x *Int64) Add(delta int64) int64 { yield("add"); return x.v.Add(delta) }

type Uint32 struct{ v atomic.Uint32 }

func (x *Uint32) Load() uint32           { yield("load"); return x.v.Load() }
func (x *Uint32) Store(val uint32)       { yield("store"); x.v.Store(val) }
func (x *Uint32) Swap(new uint32) uint32 { yield("swap"); return x.v.Swap(new) }
func (x *Uint32) CompareAndSwap(old, new uint32) bool {
	yield("cas")
	return x.v.CompareAndSwap(old, new)
}
func (x *Uint32) Add(delta uint32) uint32 { yield("add"); return x.v.Add(delta) }

type Uint64 struct{ v atomic.Uint64 }

func (x *Uint64) Load() uint64           { yield("load"); return x.v.Load() }
func (x *Uint64) Store(val uint64)       { yield("store"); x.v.Store(val) }
func (x *Uint64) Swap(new uint64) uint64 { yield("swap"); return x.v.Swap(new) }
func (x *Uint64) CompareAndSwap(old, new uint64) bool {
	yield("cas")
	return x.v.CompareAndSwap(old, new)
}
func (x *Uint64) Add(delta uint64) uint64 { yield("add"); return x.v.Add(delta) }

type Uintptr struct{ v atomic.Uintptr }

func (x *Uintptr) Load() uintptr            { yield("load"); return x.v.Load() }
func (x *Uintptr) Store(val uintptr)        { yield("store"); x.v.Store(val) }
func (x *Uintptr) Swap(new uintptr) uintptr { yield("swap"); return x.v.Swap(new) }
func (x *Uintptr) CompareAndSwap(old, new uintptr) bool {
	yield("cas")
	return x.v.CompareAndSwap(old, new)
}
func (x *Uintptr) Add(delta uintptr) uintptr { yield("add"); return x.v.Add(delta) }

type Pointer[T any] struct{ v atomic.Pointer[T] }

func (x *Pointer[T]) Load() *T       { yield("load"); return x.v.Load() }
func (x *Pointer[T]) Store(val *T)   { yield("store"); x.v.Store(val) }
func (x *Pointer[T]) Swap(new *T) *T { yield("swap"); return x.v.Swap(new) }
func (x *Pointer[T]) CompareAndSwap(old, new *T) bool {
	yield("cas")
	return x.v.CompareAndSwap(old, new)
}

type Value struct{ v atomic.Value }

func (x *Value) Load() any                        { yield("load"); return x.v.Load() }
func (x *Value) Store(val any)                    { yield("store"); x.v.Store(val) }
func (x *Value) Swap(new any) any                 { yield("swap"); return x.v.Swap(new) }
func (x *Value) CompareAndSwap(old, new any) bool { yield("cas"); return x.v.CompareAndSwap(old, new) }
