import os, shutil, subprocess, sys, json, time

from driver import VERIF, REPO, GO, SCRATCH_ROOT, goenv, sh, log, Infra, MODPATH
from config import WORLDS, PROPS

def _rsync_repo(dst):
    os.makedirs(dst, exist_ok=True)
    sh(['rsync', '-a', '--delete', '--exclude', '.git', '--exclude', '/docs', '--exclude', '/examples', '--exclude', '/benchmarks',
        '--exclude', '*.gif', '--exclude', '*.png', '--exclude', '/zzverif', '--exclude', '/storybook/_example*', REPO + '/', dst + '/'])

def prepare(prop, tier, cfg, keep=False):
    """Copies /repo's working tree to a scratch dir, instruments it, builds the world binaries."""
    t0 = time.time()
    os.makedirs(SCRATCH_ROOT, exist_ok=True)
    scratch = os.path.join(SCRATCH_ROOT, '%s-%s-%d' % (prop, tier, os.getpid()))
    if os.path.exists(scratch):
        shutil.rmtree(scratch)
    ctx = {'scratch': scratch, 'tmp': os.path.join(scratch, 'tmp'), 'binaries': {}, 'env': {}, 'keep': keep or bool(os.environ.get('VERIF_KEEP'))}
    try:
        _rsync_repo(os.path.join(scratch, 'src'))
        os.makedirs(ctx['tmp'])
        src = os.path.join(scratch, 'src')
        ctx['src'] = src
        ctx['env']['VSIM_SRC'] = src
        ctx['env']['VSIM_TMP'] = ctx['tmp']
        world = WORLDS[cfg['world']]
        zz = os.path.join(src, 'zzverif')
        os.makedirs(zz)
        for d in ('kernel', 'shim', 'prep'):
            shutil.copytree(os.path.join(VERIF, 'sim', d), os.path.join(zz, d))
        wsrc = os.path.join(VERIF, 'sim', 'worlds', cfg['world'])
        shutil.copytree(wsrc, os.path.join(zz, 'worlds', cfg['world']))
        for extra in world.get('extra_dirs', []):
            shutil.copytree(os.path.join(VERIF, 'sim', extra), os.path.join(zz, extra))
        bindir = os.path.join(scratch, 'bin')
        os.makedirs(bindir)
        env = goenv()
        goroot = sh([GO, 'env', 'GOROOT'], env=env).stdout.strip()
        env['GOROOT'] = goroot
        # tools built from the scratch copy *before* instrumentation
        sh([GO, 'build', '-trimpath', '-o', os.path.join(bindir, 'simprep'), './zzverif/prep'], cwd=src, env=env)
        if world.get('needs_templ'):
            sh([GO, 'build', '-trimpath', '-o', os.path.join(bindir, 'templ'), './cmd/templ'], cwd=src, env=env)
        ctx['bindir'] = bindir
        # simos re-export
        sh([os.path.join(bindir, 'simprep'), '-mode', 'genos', '-out', os.path.join(zz, 'shim', 'simos', 'zz_reexport.go'),
            '-overrides', _simos_overrides(os.path.join(zz, 'shim', 'simos'))], cwd=src, env=env)
        # import rewrite
        for pkgdir, shims in world.get('rewrite', []):
            sh([os.path.join(bindir, 'simprep'), '-mode', 'rewrite', '-shims', shims, os.path.join(src, pkgdir)], cwd=src, env=env)
        # goroutine-start seams
        for pkgdir in world.get('gostart', []):
            sh([os.path.join(bindir, 'simprep'), '-mode', 'gostart', os.path.join(src, pkgdir)], cwd=src, env=env)
        for pkgdir, renames in world.get('callrename', []):
            sh([os.path.join(bindir, 'simprep'), '-mode', 'callrename', '-renames', renames, os.path.join(src, pkgdir)], cwd=src, env=env)
        for pkgdir in world.get('httpserve', []):
            sh([os.path.join(bindir, 'simprep'), '-mode', 'httpserve', os.path.join(src, pkgdir)], cwd=src, env=env)
        for pkgdir in world.get('closeyield', []):
            sh([os.path.join(bindir, 'simprep'), '-mode', 'closeyield', os.path.join(src, pkgdir)], cwd=src, env=env)
        # export files
        for rel, content in world.get('export_files', {}).items():
            with open(os.path.join(src, rel), 'w') as f:
                f.write(content)
        hook = world.get('prep_hook')
        if hook:
            import hooks
            getattr(hooks, hook)(ctx, prop, tier, cfg, world)
        for name, b in cfg.get('builds', {'default': {}}).items():
            out = os.path.join(bindir, '%s-%s.test' % (cfg['world'], name))
            cmd = [GO, 'test', '-c', '-vet=off', '-o', out]
            if world.get('trimpath', True):
                cmd.insert(3, '-trimpath')
            if b.get('race'):
                cmd.append('-race')
            if b.get('tags'):
                cmd += ['-tags', b['tags']]
            cmd.append('./' + world['pkg'])
            sh(cmd, cwd=src, env=env, timeout=1800)
            ctx['binaries'][name] = out
        post = world.get('post_build_hook')
        if post:
            import hooks
            getattr(hooks, post)(ctx, prop, tier, cfg, world)
        log('[prep %s] %.1fs' % (prop, time.time() - t0))
        return ctx
    except BaseException:
        cleanup(ctx)
        raise

def _simos_overrides(d):
    """Names defined by hand in simos (so that the generator does not re-export them)."""
    import re
    names = set()
    for fn in os.listdir(d):
        if fn.endswith('.go') and not fn.startswith('zz_'):
            with open(os.path.join(d, fn)) as f:
                for m in re.finditer(r'^(?:func|var|type|const)\s+([A-Z]\w*)', f.read(), re.M):
                    names.add(m.group(1))
    return ','.join(sorted(names))

def cleanup(ctx):
    if ctx.get('keep'):
        log('keeping scratch ' + ctx['scratch'])
        return
    shutil.rmtree(ctx['scratch'], ignore_errors=True)
    try:
        os.rmdir(SCRATCH_ROOT)
    except OSError:
        pass

def setup():
    """Warm the build cache: prepare and build every world once."""
    seen = set()
    for prop, cfg in PROPS.items():
        key = (cfg['world'], tuple(sorted(cfg.get('builds', {'default': {}}).keys())))
        if key in seen:
            continue
        seen.add(key)
        ctx = prepare(prop, 'quick', cfg)
        cleanup(ctx)
    return 0
