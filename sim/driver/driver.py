import sys, os, json, time, shutil, subprocess, tempfile, hashlib, re, fcntl, signal
from concurrent.futures import ThreadPoolExecutor

VERIF = os.path.abspath(os.path.join(os.path.dirname(os.path.abspath(__file__)), '..', '..'))
REPO = os.environ.get('VERIF_REPO', '/repo')
# where replays/ and evidence/ are written (the seeded-change harness points this elsewhere)
OUTDIR = os.environ.get('VERIF_OUTDIR', VERIF)
GO = os.environ.get('VERIF_GO', 'go1.26.8')
SCRATCH_ROOT = os.environ.get('VERIF_SCRATCH', '/var/tmp/verif-scratch')
NCPU = int(os.environ.get('VERIF_WORKERS', str(os.cpu_count() or 4)))
MODPATH = 'github.com/a-h/templ'

def goenv(extra=None):
    e = dict(os.environ)
    e.update({'GOFLAGS': '-mod=mod', 'GOPROXY': 'off', 'GOSUMDB': 'off', 'GOTOOLCHAIN': 'local', 'CGO_ENABLED': e.get('CGO_ENABLED', '1')})
    if extra:
        e.update(extra)
    return e

class Infra(Exception):
    pass

def log(*a):
    print(*a, file=sys.stderr, flush=True)

def sh(cmd, cwd=None, env=None, timeout=None, check=True):
    p = subprocess.run(cmd, cwd=cwd, env=env or goenv(), stdout=subprocess.PIPE, stderr=subprocess.STDOUT, text=True, timeout=timeout)
    if check and p.returncode != 0:
        raise Infra('command failed (%d): %s\n%s' % (p.returncode, ' '.join(cmd), p.stdout[-4000:]))
    return p

# ---------------------------------------------------------------------------------------
# configuration (worlds, properties, tiers) lives in config.py
from config import WORLDS, PROPS
import prep as prepmod

# ---------------------------------------------------------------------------------------
# running workers

def run_worker(binary, env, out_path, timeout):
    """Runs one worker process; returns (returncode, stderr_tail)."""
    e = goenv(env)
    e['VSIM_OUT'] = out_path
    try:
        p = subprocess.run([binary, '-test.run', '^TestSim$', '-test.timeout', '0', '-test.count', '1'],
                           env=e, stdout=subprocess.PIPE, stderr=subprocess.PIPE, text=True, timeout=timeout,
                           cwd=os.path.dirname(binary), errors='replace')
        return p.returncode, p.stderr, p.stdout
    except subprocess.TimeoutExpired as ex:
        err = ex.stderr
        if isinstance(err, bytes):
            err = err.decode('utf8', 'replace')
        return -9, (err or '') + '\nWATCHDOG: worker timed out', ''

def read_results(path):
    res = []
    if not os.path.exists(path):
        return res
    with open(path) as f:
        for ln in f:
            ln = ln.strip()
            if not ln:
                continue
            try:
                res.append(json.loads(ln))
            except Exception:
                pass
    return res

PANIC_RE = re.compile(r'^(panic: .*|fatal error: .*)$', re.M)

def harness_panic(stderr):
    """True when the innermost non-runtime frame of the panicking goroutine is simulator code and the
    panic is not one of the simulator's deliberate guards ("sim: ..."): a bug in /verif, never a violation."""
    m = PANIC_RE.search(stderr)
    if not m or 'sim:' in m.group(1):
        return False
    tail = stderr[m.end():m.end() + 6000]
    g = re.search(r'^goroutine \d+ \[running[^\]]*\]:\n((?:.+\n)+?)\n', tail, re.M)
    blk = g.group(1) if g else tail
    for fm in re.finditer(r'^(\S[^\n]*)\(.*\)\n\t(\S+)', blk, re.M):
        fn, loc = fm.group(1), fm.group(2)
        if fn.startswith(('runtime.', 'testing.', 'panic', 'internal/', 'reflect.', 'sync.', 'bufio.', 'bytes.', 'strings.', 'fmt.', 'io.', 'encoding/', 'context.', 'net/', 'sort.', 'os.', 'time.')) or '/go1.' in loc or '/golang.org/' in loc:
            continue
        where = fn + ' ' + loc
        # generated code of the corpora is the generator's product, not simulator code
        return '/zzverif/' in where and '/corpus' not in where and '/fam/' not in where
    return False

def crash_signature(prop, stderr):
    """Root-cause class of a process death: panic text + first frame inside the repo (outside zzverif)."""
    if 'WATCHDOG' in stderr and not PANIC_RE.search(stderr):
        return None
    if harness_panic(stderr):
        return None
    m = PANIC_RE.search(stderr)
    msg = m.group(1) if m else 'process died'
    msg = re.sub(r'0x[0-9a-f]+', '0x?', msg)
    msg = re.sub(r'\[recovered\].*', '', msg).strip()
    frame = ''
    tail = stderr[m.end():] if m else stderr
    for fm in re.finditer(r'^(github\.com/a-h/templ/[^\s(]+(?:\([^)]*\))?[^\s(]*)\(', tail, re.M):
        fn = fm.group(1)
        if '/zzverif/' in fn:
            continue
        frame = fn.replace('github.com/a-h/templ/', '')
        break
    sig = '%s/crash:%s' % (prop, msg[:120])
    if frame:
        sig += '@' + frame
    return sig

def is_race(stderr):
    return 'WARNING: DATA RACE' in stderr

def race_signature(prop, stderr):
    """Root-cause class of a race report: the source files (inside the repo, outside zzverif) of the
    innermost repo frame of the two conflicting accesses."""
    i = stderr.find('WARNING: DATA RACE')
    blk = stderr[i:i + 12000]
    j = blk.find('Goroutine ')
    if j > 0:
        blk = blk[:j]
    parts = re.split(r'\n\s*Previous ', blk, maxsplit=1)
    files = []
    for part in parts[:2]:
        tm = None
        for fm in re.finditer(r'^\s+github\.com/a-h/templ/(\S+\.go):\d+', part, re.M):   # -trimpath builds
            if not fm.group(1).startswith('zzverif/'):
                tm = fm.group(1)
                break
        if tm:
            files.append(tm)
            continue
        for fm in re.finditer(r'^\s+(/\S+?)/src/(\S+\.go):\d+', part, re.M):
            root, rel = fm.group(1), fm.group(2)
            if '/go1.' in root or rel.startswith('zzverif/'):
                continue
            if '/verif-scratch' not in root and 'VP_' not in root and not os.path.exists(os.path.join(root, 'src', 'go.mod')):
                continue
            files.append(rel)
            break
    files = sorted(set(files))
    return '%s/race:%s' % (prop, '|'.join(files) or 'unknown')

import threading

class Agg:
    """Running aggregate over run records (per-run dicts are not kept: thorough tiers have millions of runs)."""
    def __init__(self):
        self.lock = threading.Lock()
        self.n = 0; self.steps = 0; self.sim_ns = 0; self.capped = 0; self.nviol = 0
        self.stats = {}; self.keys = set(); self.nontriv = set(); self.scheds = set()
        self.samples = []; self.guard_pool = []; self.viols = []; self.stage_runs = {}

    def add(self, r, stage, guard_stride):
        with self.lock:
            self.n += 1
            self.stage_runs[stage] = self.stage_runs.get(stage, 0) + 1
            self.steps += r.get('steps', 0); self.sim_ns += r.get('sim_ns', 0)
            if r.get('capped'):
                self.capped += 1
            for k, v in (r.get('stats') or {}).items():
                self.stats[k] = self.stats.get(k, 0) + v
            if r.get('key'):
                self.keys.add(r['key'])
                if r.get('nontrivial'):
                    self.nontriv.add(r['key'])
            if r.get('sched_hash'):
                self.scheds.add(r['sched_hash'])
            if r.get('sample') is not None and not r.get('viol') and len(self.samples) < 4:
                self.samples.append({'run': r['run'], 'stage': stage, 'case': r['sample']})
            if r.get('viol'):
                self.nviol += 1
                if len(self.viols) < 4000:
                    r['_stage'] = stage
                    self.viols.append(r)
            elif not r.get('capped') and not r.get('racy') and r['run'] % guard_stride == 0:
                self.guard_pool.append({'run': r['run'], 'log_hash': r.get('log_hash'), 'stage': stage})

class Batch:
    def __init__(self, ctx, prop, tier, seed, params, binary, extra_env=None, label='main', agg=None, keep_all=False):
        self.ctx, self.prop, self.tier, self.seed, self.params = ctx, prop, tier, seed, params
        self.binary, self.extra_env, self.label = binary, extra_env or {}, label
        self.results = []      # end records (only with keep_all)
        self.agg = agg or Agg()
        self.keep_all = keep_all
        self.guard_stride = 50
        self.crashes = []      # (run, sig, stderr)
        self.infra = []
        self.stalled = set()   # runs repeated once because the worker's real-time watchdog fired
        self.wall = 0.0

    def env(self, frm, to, samples=0):
        e = {'VSIM_PROP': self.prop, 'VSIM_TIER': self.tier, 'VSIM_SEED': str(self.seed), 'VSIM_FROM': str(frm), 'VSIM_TO': str(to),
             'VSIM_PARAMS': json.dumps(self.params), 'VSIM_SAMPLES': str(samples)}
        e.update(self.extra_env)
        return e

    def _chunk(self, frm, to, samples, per_run_timeout):
        """Run [frm,to) in as many processes as crashes require."""
        out = []
        cur = frm
        idx = 0
        while cur < to:
            if len(self.crashes) + len(self.infra) + getattr(self, 'restarts', 0) > 60:
                # hundreds of runs have already killed their worker or not come back: more of the
                # same adds nothing (a changed tree that recurses without end, for example), the
                # ones at hand are analysed
                return out
            path = os.path.join(self.ctx['tmp'], 'out-%s-%d-%d-%d.jsonl' % (self.label, frm, cur, idx))
            idx += 1
            if os.path.exists(path):
                os.remove(path)
            e = self.env(cur, to, samples if cur == frm else 0)
            e['VSIM_RUN_TIMEOUT_S'] = str(int(max(60, 6 * per_run_timeout)))  # the worker's own per-run watchdog (exit 3 with stacks)
            rc, err, _ = run_worker(self.binary, e, path, timeout=60 + per_run_timeout * (to - cur))
            recs = read_results(path)
            os.remove(path) if os.path.exists(path) else None
            ends = [r for r in recs if r.get('ev') == 'end']
            starts = [r for r in recs if r.get('ev') == 'start']
            for r in ends:
                self.agg.add(r, self.label, self.guard_stride)
            if self.keep_all:
                out.extend(ends)
            else:
                out.extend({'run': r['run'], 'log_hash': r.get('log_hash'), 'viol': r.get('viol')} for r in ends if self.label.startswith('det'))
            done = set(r['run'] for r in ends)
            rst = [r for r in recs if r.get('ev') == 'restart']
            if rc == 0 and rst and not is_race(err):
                self.restarts = getattr(self, 'restarts', 0) + 1
                cur = rst[-1]['next']
                continue
            if rc == 0 and not is_race(err):
                if any(r.get('ev') == 'wall' for r in recs):
                    self.infra.append('worker hit its wall-clock limit at run %s' % [r for r in recs if r.get('ev') == 'wall'][0].get('next'))
                break
            # died (or race detector exit): attribute to the last started, unfinished run
            pend = [s['run'] for s in starts if s['run'] not in done]
            if is_race(err):
                # the race detector reports at exit code 66 or inline; attribute to the runs of this chunk
                self.crashes.append((pend[0] if pend else (max(done) if done else cur), race_signature(self.prop, err), err))
                if rc == 0 or not pend:
                    break
                cur = pend[0] + 1
                continue
            if not pend:
                self.infra.append('worker exited %d without a pending run (runs %d..%d): %s' % (rc, cur, to, err[-1500:]))
                break
            sig = crash_signature(self.prop, err)
            if sig is None and 'WATCHDOG: run' in err and not harness_panic(err) and pend[0] not in self.stalled and len(self.stalled) < 3:
                # The worker's watchdog measures real time. A machine that stood still for a minute
                # (a virtual machine paused for a snapshot, a host without a free core) makes it
                # fire on a run that has nothing wrong with it: the run is executed once more, in a
                # fresh process, before anything is said about it. A run that really does not
                # come back fails the same way again and is reported as before.
                self.stalled.add(pend[0])
                self.agg.stats['worker_watchdog_fired_run_repeated'] = self.agg.stats.get('worker_watchdog_fired_run_repeated', 0) + 1
                cur = pend[0]
                continue
            if sig is None:
                self.infra.append(('simulator code panicked (a bug in /verif, not a violation) at run %d: %s' if harness_panic(err) else 'worker watchdog at run %d: %s') % (pend[0], tail_of_crash(err)[:1200] if harness_panic(err) else (err[err.index('WATCHDOG: run'):][:6000] if 'WATCHDOG: run' in err else err[-800:])))
            else:
                self.crashes.append((pend[0], sig, err))
            cur = pend[0] + 1
        return out

    def run(self, runs, chunk=None, per_run_timeout=2.0, samples=3, first=0):
        t0 = time.time()
        self.guard_stride = max(1, runs // 400)
        if chunk is None:
            chunk = max(1, min(2000, runs // (NCPU * 4) or 1))
        jobs = []
        i = first
        while i < first + runs:
            j = min(first + runs, i + chunk)
            jobs.append((i, j))
            i = j
        with ThreadPoolExecutor(max_workers=NCPU) as ex:
            futs = [ex.submit(self._chunk, a, b, samples if a == first else 0, per_run_timeout) for a, b in jobs]
            for f in futs:
                self.results.extend(f.result())
        self.wall = time.time() - t0
        return self

# ---------------------------------------------------------------------------------------
# replay + shrinking

def write_tape_file(path, prop, tier, seed, run, params, tape, extra=None):
    d = {'property': prop, 'tier': tier, 'seed': seed, 'run': run, 'params': params, 'tape': tape}
    if extra:
        d.update(extra)
    with open(path, 'w') as f:
        json.dump(d, f)

def run_tape(ctx, binary, prop, tier, seed, run, params, tape, extra_env=None, timeout=120, tag='r'):
    """Replays a tape in a fresh process. Returns (sig or None, record or None, stderr)."""
    fd, tf = tempfile.mkstemp(prefix='tape-', suffix='.json', dir=ctx['tmp'])
    os.close(fd)
    out = tf + '.out'
    write_tape_file(tf, prop, tier, seed, run, params, tape)
    env = {'VSIM_PROP': prop, 'VSIM_TIER': tier, 'VSIM_SEED': str(seed), 'VSIM_PARAMS': json.dumps(params), 'VSIM_TAPE': tf}
    env.update(extra_env or {})
    rc, err, _ = run_worker(binary, env, out, timeout)
    recs = read_results(out)
    for p in (tf, out):
        if os.path.exists(p):
            os.remove(p)
    ends = [r for r in recs if r.get('ev') == 'end']
    if is_race(err):
        return race_signature(prop, err), (ends[0] if ends else None), err
    if ends and rc == 0:
        r = ends[0]
        return (r['viol']['sig'] if r.get('viol') else None), r, err
    if rc != 0:
        sig = crash_signature(prop, err)
        return sig, (ends[0] if ends else None), err
    return None, None, err

def stream_tape_for_seed(ctx, binary, prop, tier, seed, run, params, extra_env=None):
    """Re-runs a crashing seed alone with the tape streamed to disk; returns (tape, sig, stderr)."""
    tp = os.path.join(ctx['tmp'], 'stream-%d.tape' % run)
    out = tp + '.out'
    env = {'VSIM_PROP': prop, 'VSIM_TIER': tier, 'VSIM_SEED': str(seed), 'VSIM_FROM': str(run), 'VSIM_TO': str(run + 1),
           'VSIM_PARAMS': json.dumps(params), 'VSIM_TAPE_OUT': tp}
    env.update(extra_env or {})
    rc, err, _ = run_worker(binary, env, out, 300)
    tape = []
    if os.path.exists(tp):
        with open(tp) as f:
            tape = [int(x) for x in f.read().split()]
        os.remove(tp)
    if os.path.exists(out):
        os.remove(out)
    sig = race_signature(prop, err) if is_race(err) else (crash_signature(prop, err) if rc != 0 else None)
    return tape, sig, err

def shrink(ctx, binary, prop, tier, seed, run, params, tape, sig, extra_env=None, budget_s=150, max_cand=600):
    """Tape-level ddmin: delete blocks, then zero values, then halve values; a candidate is
    accepted only if the same signature recurs in a fresh process."""
    t0 = time.time()
    tried = [0]
    def test_many(cands):
        # returns index of first candidate reproducing sig, else -1
        if not cands:
            return -1
        with ThreadPoolExecutor(max_workers=NCPU) as ex:
            futs = [ex.submit(run_tape, ctx, binary, prop, tier, seed, run, params, c, extra_env, 120) for c in cands]
            res = [f.result()[0] for f in futs]
        tried[0] += len(cands)
        for i, s in enumerate(res):
            if s == sig:
                return i
        return -1
    def out_of_budget():
        return time.time() - t0 > budget_s or tried[0] > max_cand
    cur = list(tape)
    # strip trailing part first (violations usually happen before the end)
    n = 2
    while len(cur) >= 1 and not out_of_budget():
        size = max(1, len(cur) // n)
        cands, spans = [], []
        for s in range(0, len(cur), size):
            c = cur[:s] + cur[s + size:]
            cands.append(c); spans.append((s, size))
        cands = cands[:NCPU * 2] if len(cands) > NCPU * 2 else cands
        i = test_many(cands)
        if i >= 0:
            cur = cands[i]
            n = max(n - 1, 2)
            continue
        if size == 1:
            break
        n = min(len(cur), n * 2)
    # zero / halve values
    changed = True
    while changed and not out_of_budget():
        changed = False
        idxs = [i for i, v in enumerate(cur) if v != 0]
        for g in range(0, len(idxs), NCPU):
            grp = idxs[g:g + NCPU]
            cands = []
            for i in grp:
                c = list(cur); c[i] = 0; cands.append(c)
            k = test_many(cands)
            if k >= 0:
                cur = cands[k]; changed = True
                break
            cands = []
            for i in grp:
                c = list(cur); c[i] = cur[i] // 2; cands.append(c)
            k = test_many([c for c in cands if c != cur])
            if k >= 0:
                cur = [c for c in cands if c != cur][k]; changed = True
                break
            if out_of_budget():
                break
    # trailing zeros are implied
    while cur and cur[-1] == 0:
        cur.pop()
    return cur, tried[0]

# ---------------------------------------------------------------------------------------
# known findings

def load_known():
    p = os.path.join(VERIF, 'known-findings.json')
    if not os.path.exists(p):
        return []
    with open(p) as f:
        return json.load(f).get('findings', [])

def known_match(known, prop, sig):
    for k in known:
        if k.get('status') == 'known' and k.get('property') == prop and k.get('signature') == sig:
            return k
    return None

# ---------------------------------------------------------------------------------------
# the check

def determinism_guard(ctx, cfg, batch, binary, prop, tier, seed, params, extra_env):
    """Re-executes a sample of runs in other processes at another GOMAXPROCS; hashes must agree."""
    pool = [g for g in batch.agg.guard_pool if g['stage'] == batch.label]
    if not pool:
        return 0, []
    k = min(max(5, len(pool)), 400)
    step = max(1, len(pool) // k)
    sample = sorted(pool, key=lambda r: r['run'])[::step][:k]
    mism = []
    def redo(r, procs):
        b = Batch(ctx, prop, tier, seed, params, binary, dict(extra_env or {}, GOMAXPROCS=str(procs)), label='det%d' % r['run'])
        res = b._chunk(r['run'], r['run'] + 1, 0, 60)
        return r, res, b
    with ThreadPoolExecutor(max_workers=NCPU) as ex:
        futs = [ex.submit(redo, r, [1, 4, 16][i % 3]) for i, r in enumerate(sample)]
        for f in futs:
            r, res, b = f.result()
            if not res:
                if b.crashes:
                    continue
                mism.append((r['run'], r.get('log_hash'), 'no result'))
            elif res[0].get('log_hash') != r.get('log_hash'):
                mism.append((r['run'], r.get('log_hash'), res[0].get('log_hash')))
    # A mismatch must be reproducible to count: the run is executed twice more in fresh processes.
    # Where the hash of the batch run is never seen again, or the re-executions disagree among
    # themselves, the run is not a function of its seed. A single stray hash (under heavy machine
    # load the Go runtime may preempt a goroutine where it normally would not) is reported in the
    # evidence as transient and does not stop the check.
    confirmed, transient = [], 0
    for run, h0, h1 in mism:
        hs = []
        for procs in (1, 16):
            b = Batch(ctx, prop, tier, seed, params, binary, dict(extra_env or {}, GOMAXPROCS=str(procs)), label='det%d' % run)
            res = b._chunk(run, run + 1, 0, 60)
            hs.append(res[0].get('log_hash') if res else None)
        if hs[0] == hs[1] == h0 or hs[0] == hs[1] == h1:
            transient += 1
        else:
            confirmed.append((run, h0, h1, hs))
    batch.transient_mismatches = transient
    return len(sample), confirmed

def check(prop, tier, replay_file=None):
    t_start = time.time()
    if prop not in PROPS:
        log('unknown property', prop)
        return 2
    cfg = PROPS[prop]
    tcfg = cfg['tiers'][tier]
    seed = int(os.environ.get('VERIF_SEED', '1') or '1')
    params = dict(tcfg.get('params', {}))
    known = load_known()
    ctx = prepmod.prepare(prop, tier, cfg)
    try:
        return _check(ctx, prop, tier, cfg, tcfg, seed, params, known, t_start)
    finally:
        prepmod.cleanup(ctx)

def _check(ctx, prop, tier, cfg, tcfg, seed, params, known, t_start):
    stages = cfg.get('stages') or [{'name': 'main', 'build': 'default'}]
    agg, viol_map, infra = Agg(), {}, []
    stage_info = []
    guard_n = 0
    guard_transient = 0
    guard_mism = []
    for st in stages:
        stp = dict(params)
        stp.update(st.get('params', {}))
        stp.update(tcfg.get('stage_params', {}).get(st['name'], {}))
        runs = tcfg.get('stage_runs', {}).get(st['name'], tcfg['runs'])
        if runs <= 0:
            continue
        binary = ctx['binaries'][st.get('build', 'default')]
        extra_env = dict(st.get('env', {}))
        extra_env.update(ctx.get('env', {}))
        nv0 = agg.nviol
        b = Batch(ctx, prop, tier, seed, stp, binary, extra_env, label=st['name'], agg=agg)
        b.run(runs, per_run_timeout=tcfg.get('per_run_timeout', 2.0), chunk=tcfg.get('chunk'))
        nstage = agg.stage_runs.get(st['name'], 0)
        log('[%s %s] stage %s: %d runs in %.1fs, %d violations, %d crashes' % (prop, tier, st['name'], nstage, b.wall, agg.nviol - nv0, len(b.crashes)))
        infra.extend(b.infra)
        # violations reported by the world
        for r in sorted([v for v in agg.viols if v.get('_stage') == st['name']], key=lambda r: r['run']):
            for v in (r.get('viols') or ([r['viol']] if r.get('viol') else [])):
                viol_map.setdefault(v['sig'], []).append({'stage': st, 'params': stp, 'run': r['run'], 'msg': v['msg'], 'tape': r.get('tape'), 'binary': binary,
                                                          'env': extra_env, 'primary': r.get('viol', {}).get('sig') == v['sig'], 'lines': r.get('lines'), 'sample': r.get('sample')})
        for run, sig, err in b.crashes:
            viol_map.setdefault(sig, []).append({'stage': st, 'params': stp, 'run': run, 'msg': tail_of_crash(err), 'tape': None, 'binary': binary, 'env': extra_env,
                                                  'primary': True, 'crash': True})
        if not st.get('no_guard'):
            n, mism = determinism_guard(ctx, cfg, b, binary, prop, tier, seed, stp, extra_env)
            guard_n += n
            guard_transient += getattr(b, 'transient_mismatches', 0)
            if mism:
                guard_mism.append((st['name'], mism[:5]))
        stage_info.append({'stage': st['name'], 'runs': nstage, 'wall_s': round(b.wall, 2)})
    if agg.n == 0 and not viol_map:
        log('no runs completed: ' + '; '.join(infra)[:3000])
        return 2
    capped = agg.capped
    if infra and not viol_map:
        for m in infra[:10]:
            log('INFRA: ' + m)
        return 2
    if infra:
        # Some runs did not come back (a changed tree can hang goroutines the scheduler does not
        # own) while others ended in violations: the violations are confirmed and reported as
        # usual below; the trouble is listed, and decides the exit status only if no violation
        # is confirmed.
        for m in infra[:5]:
            log('INFRA (besides the violations below): ' + m[:400])
    # --- violations: shrink one representative per signature
    exit_code = 0
    reported = []
    unconfirmed = []
    os.makedirs(os.path.join(OUTDIR, 'replays'), exist_ok=True)
    for sig in sorted(viol_map):
        occ = viol_map[sig]
        kn = known_match(known, prop, sig)
        prim = sorted([o for o in occ if o.get('primary')] or occ, key=lambda o: o['run'])
        o = prim[0]
        if kn:
            print('KNOWN-FINDING: property=%s %s [%s] (%d runs, e.g. run %d)' % (prop, kn.get('what', ''), sig, len(occ), o['run']))
            reported.append({'sig': sig, 'known': True, 'count': len(occ)})
            continue
        confirmed = None
        # a violation must recur from its own tape in a fresh process; a few attempts are allowed because
        # changed code can itself introduce choices the simulator does not own (e.g. a select with two ready cases)
        for attempt in range(max(3, 12 // max(1, len(prim[:6])))):
            for o in prim[:6]:
                tape = o.get('tape')
                if tape is None:
                    tape, sig2, err = stream_tape_for_seed(ctx, o['binary'], prop, tier, seed, o['run'], o['params'], o['env'])
                else:
                    sig2, _, _ = run_tape(ctx, o['binary'], prop, tier, seed, o['run'], o['params'], tape, o['env'])
                if sig2 == sig:
                    o['tape'] = tape
                    confirmed = o
                    break
            if confirmed is not None:
                break
        if confirmed is None:
            # seen inside a batch process but never alone in a fresh process: not replayable,
            # therefore reported as infrastructure trouble, never as a violation
            unconfirmed.append((sig, len(occ), prim[0]['run']))
            continue
        o = confirmed
        tape = o['tape']
        st = o['stage']
        n_unknown = sum(1 for r in reported if not r.get('known'))
        if n_unknown >= 6:
            print('VIOLATION property=%s replay=none (further signature %s, %d runs; not minimised)' % (prop, sig, len(occ)))
            reported.append({'sig': sig, 'known': False, 'count': len(occ)})
            exit_code = 1
            continue
        if 'does-not-terminate' in sig:
            # every reproducing candidate costs seconds to a minute (that is the violation): the
            # schedule is reported as recorded
            mintape, tried = tape, 0
        else:
            mintape, tried = shrink(ctx, o['binary'], prop, tier, seed, o['run'], o['params'], tape, sig, o['env'],
                                    budget_s=tcfg.get('shrink_budget_s', 120) if n_unknown == 0 else 25)
        sigm, recm, errm = run_tape(ctx, o['binary'], prop, tier, seed, o['run'], o['params'], mintape, o['env'])
        if sigm != sig:
            mintape = tape
            sigm, recm, errm = run_tape(ctx, o['binary'], prop, tier, seed, o['run'], o['params'], mintape, o['env'])
        rp = os.path.join(OUTDIR, 'replays', '%s-%s-%d-%d.json' % (prop, st['name'], seed, o['run']))
        write_tape_file(rp, prop, tier, seed, o['run'], o['params'], mintape, {
            'stage': st['name'], 'world': cfg['world'], 'signature': sig, 'message': (recm or {}).get('viol', {}).get('msg') if recm and recm.get('viol') else o['msg'],
            'original_tape': tape, 'shrink_candidates': tried, 'log_hash': (recm or {}).get('log_hash'),
            'log': ((recm or {}).get('lines') or [])[:200], 'sample': (recm or {}).get('sample'), 'stderr_tail': tail_of_crash(errm) if o.get('crash') or is_race(errm) else None,
            'occurrences': len(occ)})
        print('VIOLATION property=%s replay=%s' % (prop, rp))
        print('  signature: %s' % sig)
        print('  %s' % (o['msg'][:600].replace('\n', '\n  ')))
        print('  seed=%d run=%d tape %d -> %d choices (%d candidates tried), %d runs hit this signature' % (seed, o['run'], len(tape), len(mintape), tried, len(occ)))
        reported.append({'sig': sig, 'known': False, 'count': len(occ), 'replay': rp})
        exit_code = 1
    agg.stats['determinism_guard_transient_mismatches'] = guard_transient
    write_evidence(prop, tier, cfg, tcfg, seed, agg, stage_info, reported, guard_n, capped, time.time() - t_start, ctx)
    if exit_code == 0 and infra:
        return 2
    if exit_code == 0 and (unconfirmed or guard_mism):
        for sig, n, run in unconfirmed:
            log('INFRA: %s seen in %d batch runs (e.g. run %d) but not when replayed alone in a fresh process' % (sig, n, run))
        for stn, mism in guard_mism:
            print('NONDETERMINISM property=%s stage=%s runs=%s' % (prop, stn, mism))
        log('runs are not a function of their seed; this is an infrastructure failure, not a violation')
        return 2
    return exit_code

def tail_of_crash(err):
    m = PANIC_RE.search(err)
    i = err.find('WARNING: DATA RACE')
    if i >= 0:
        return err[i:i + 3000]
    if m:
        return err[m.start():m.start() + 2500]
    return err[-1500:]

def write_evidence(prop, tier, cfg, tcfg, seed, agg, stage_info, reported, guard_n, capped, wall, ctx):
    stats, keys, scheds, nontriv_keys = agg.stats, agg.keys, agg.scheds, agg.nontriv
    steps, sim_ns, samples = agg.steps, agg.sim_ns, list(agg.samples)
    results = range(agg.n)
    if not samples:
        samples = [{'run': v['run'], 'case': v.get('sample')} for v in agg.viols[:1]] or [{'note': 'no sample recorded'}]
    evals = int(stats.get('evaluations', 0)) or len(results)
    ev = {
        'property_id': prop, 'tier': tier, 'seed': seed, 'level': cfg['level'],
        'coverage': {
            'evaluations': evals,
            'distinct_nontrivial': len(nontriv_keys),
            'rule': cfg['rule'],
            'samples': samples,
            'simulated_runs': len(results),
            'runs_per_hour': int(len(results) / max(wall, 1e-3) * 3600),
            'steps': steps,
            'simulated_seconds': round(sim_ns / 1e9, 3),
            'distinct_executions': len(keys),
            'distinct_schedules': len(scheds),
            'capped_runs': capped,
            'faults_fired': {k: v for k, v in sorted(stats.items()) if k.startswith('fault_')},
            'probes': {k: v for k, v in sorted(stats.items()) if k.startswith('probe_')},
            'counters': {k: v for k, v in sorted(stats.items()) if not k.startswith('fault_') and not k.startswith('probe_')},
            'determinism_guard_reruns': guard_n,
            'stages': stage_info,
            'real': cfg.get('real', []), 'stubbed': cfg.get('stubbed', []),
            'findings': reported,
            'prep_notes': (ctx or {}).get('notes', []),
        },
        'assumptions': cfg.get('assumptions', []),
        'wall_s': round(wall, 2),
        'violations': sum(1 for r in reported if not r.get('known')),
    }
    os.makedirs(os.path.join(OUTDIR, 'evidence'), exist_ok=True)
    with open(os.path.join(OUTDIR, 'evidence', prop + '.json'), 'w') as f:
        json.dump(ev, f, indent=1, sort_keys=False)
    log('[%s %s] evidence: %d runs, %d distinct non-trivial, %.1fs' % (prop, tier, len(results), len(nontriv_keys), wall))

def replay(path):
    with open(path) as f:
        rf = json.load(f)
    prop, tier = rf['property'], rf.get('tier', 'quick')
    cfg = PROPS[prop]
    ctx = prepmod.prepare(prop, tier, cfg)
    try:
        st = [s for s in (cfg.get('stages') or [{'name': 'main', 'build': 'default'}]) if s['name'] == rf.get('stage', 'main')][0]
        binary = ctx['binaries'][st.get('build', 'default')]
        env = dict(st.get('env', {})); env.update(ctx.get('env', {})); env['VSIM_LINES'] = '1'
        sig, rec, err = run_tape(ctx, binary, prop, tier, rf['seed'], rf['run'], rf['params'], rf['tape'], env)
        if rec:
            for ln in (rec.get('lines') or [])[:200]:
                print('  | ' + ln)
        if sig is None:
            print('replay: no violation (expected %s)' % rf.get('signature'))
            return 0
        if rec and rec.get('viol'):
            print('  ' + rec['viol']['msg'][:1500])
        elif err:
            print(tail_of_crash(err))
        print('VIOLATION property=%s replay=%s' % (prop, os.path.abspath(path)))
        print('  signature: %s%s' % (sig, '' if sig == rf.get('signature') else ' (file says %s)' % rf.get('signature')))
        return 1
    finally:
        prepmod.cleanup(ctx)

def selftest(worlds):
    """Determinism self-test: every world, N seeds, three processes at GOMAXPROCS 1/4/16."""
    bad = 0
    for prop, cfg in PROPS.items():
        if worlds and cfg['world'] not in worlds and prop not in worlds:
            continue
        ctx = prepmod.prepare(prop, 'quick', cfg)
        try:
            for st in (cfg.get('stages') or [{'name': 'main', 'build': 'default'}]):
                if st.get('no_guard'):
                    continue
                params = dict(cfg['tiers']['quick'].get('params', {})); params.update(st.get('params', {}))
                binary = ctx['binaries'][st.get('build', 'default')]
                n = int(os.environ.get('VERIF_SELFTEST_RUNS', '300'))
                hashes = []
                for procs in (1, 4, 16):
                    env = dict(st.get('env', {})); env.update(ctx.get('env', {})); env['GOMAXPROCS'] = str(procs)
                    b = Batch(ctx, prop, 'quick', 777, params, binary, env, label='self%d' % procs, keep_all=True).run(n, samples=0)
                    hashes.append({r['run']: r.get('log_hash') for r in b.results if not r.get('racy')})
                diff = [r for r in hashes[0] if not (hashes[0][r] == hashes[1].get(r) == hashes[2].get(r))]
                print('selftest %s/%s: %d runs x 3 processes, %d mismatches' % (prop, st['name'], len(hashes[0]), len(diff)))
                if diff:
                    print('NONDETERMINISM property=%s stage=%s runs=%s' % (prop, st['name'], diff[:10]))
                    bad += 1
        finally:
            prepmod.cleanup(ctx)
    return 2 if bad else 0

def main(argv):
    if not argv:
        print(__doc__ or 'usage: vcheck <Cxx> quick|thorough | replay <file> | selftest | setup')
        return 2
    try:
        if argv[0] == 'replay':
            return replay(argv[1])
        if argv[0] == 'selftest':
            return selftest(argv[1:])
        if argv[0] == 'setup':
            return prepmod.setup()
        tier = argv[1] if len(argv) > 1 else os.environ.get('VERIF_TIER', 'quick')
        return check(argv[0], tier)
    except Infra as e:
        log('INFRA: ' + str(e))
        return 2
