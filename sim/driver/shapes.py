"""Seeded families of generated templates for the render world.

The combinator corpus (c.templ) is a fixed set of templates that the worlds compose at run
time, so the *generator* only ever sees those few template bodies. This module draws, from
VERIF_SEED, families of further templates whose bodies are random programs over the
constructs the properties quantify over, together with their syntax trees (shapes.json):
the worlds interpret the tree with their reference models and compare with what the code
generated from the template renders.

  Shape<i>(id string, p0, p1, p2 templ.Component, c []bool, h []*templ.OnceHandle)
      call structure: calls with / without block, { children... }, if / else, for,
      switch, elements, once blocks, flush blocks, templ.Join - nested in each other
  AShape<i>(id string, s []templ.ComponentScript, k []any, c []bool)
      one element whose attribute list nests conditional attributes around script
      handlers (on*, hx-on:), class expressions and constant attributes
"""
import json, random

EVENTS = ['onclick', 'onmouseover', 'onfocus', 'onblur', 'hx-on::click', 'onkeyup']


def _shape(rnd, idx):
    counter = [0]
    budget = [rnd.randint(3, 12)]

    def fresh():
        counter[0] += 1
        return counter[0]

    def body(depth):
        return [node(depth) for _ in range(rnd.choice([1, 1, 2, 2, 3]))]

    def node(depth):
        budget[0] -= 1
        if depth >= 4 or budget[0] <= 0 or rnd.random() < 0.35:
            k = rnd.choice(['mark', 'mark', 'children', 'children', 'children', 'call', 'call', 'legacycall'])
        else:
            k = rnd.choice(['callblock', 'callblock', 'callblock', 'callblock', 'if', 'for', 'el', 'once', 'flush', 'switch', 'join'])
        if k == 'mark':
            return {'k': 'mark', 'n': fresh()}
        if k == 'children':
            return {'k': 'children'}
        if k == 'call':
            return {'k': 'call', 'i': rnd.randrange(3)}
        if k == 'legacycall':
            return {'k': 'legacycall', 'i': rnd.randrange(3)}
        if k == 'callblock':
            return {'k': 'callblock', 'i': rnd.randrange(3), 'body': body(depth + 1)}
        if k == 'if':
            n = {'k': 'if', 'i': rnd.randrange(3), 'then': body(depth + 1)}
            if rnd.random() < 0.6:
                n['else'] = body(depth + 1)
            return n
        if k == 'switch':
            return {'k': 'switch', 'i': rnd.randrange(3), 'then': body(depth + 1), 'else': body(depth + 1)}
        if k == 'for':
            return {'k': 'for', 'body': body(depth + 1)}
        if k == 'el':
            return {'k': 'el', 'n': fresh(), 'body': body(depth + 1)}
        if k == 'once':
            return {'k': 'once', 'i': rnd.randrange(2), 'body': body(depth + 1)}
        if k == 'flush':
            return {'k': 'flush', 'body': body(depth + 1)}
        if k == 'join':
            return {'k': 'join', 'is': [rnd.randrange(3) for _ in range(rnd.randint(1, 3))]}
        raise AssertionError(k)

    return body(0)


def _emit(nodes, ind, out):
    t = '\t' * ind
    for n in nodes:
        k = n['k']
        if k == 'mark':
            out.append('%s<blk>{ id }-m%d</blk>' % (t, n['n']))
        elif k == 'children':
            out.append('%s{ children... }' % t)
        elif k == 'call':
            out.append('%s@p%d' % (t, n['i']))
        elif k == 'legacycall':
            out.append('%s{! p%d }' % (t, n['i']))  # the older call syntax, still accepted
        elif k == 'callblock':
            out.append('%s@p%d {' % (t, n['i']))
            _emit(n['body'], ind + 1, out)
            out.append('%s}' % t)
        elif k == 'if':
            out.append('%sif c[%d] {' % (t, n['i']))
            _emit(n['then'], ind + 1, out)
            if 'else' in n:
                out.append('%s} else {' % t)
                _emit(n['else'], ind + 1, out)
            out.append('%s}' % t)
        elif k == 'switch':
            out.append('%sswitch c[%d] {' % (t, n['i']))
            out.append('%s\tcase true:' % t)
            _emit(n['then'], ind + 2, out)
            out.append('%s\tdefault:' % t)
            _emit(n['else'], ind + 2, out)
            out.append('%s}' % t)
        elif k == 'for':
            out.append('%sfor i := 0; i < 2; i++ {' % t)
            _emit(n['body'], ind + 1, out)
            out.append('%s}' % t)
        elif k == 'el':
            out.append('%s<div id={ id + "-e%d" }>' % (t, n['n']))
            _emit(n['body'], ind + 1, out)
            out.append('%s</div>' % t)
        elif k == 'once':
            out.append('%s@h[%d].Once() {' % (t, n['i']))
            _emit(n['body'], ind + 1, out)
            out.append('%s}' % t)
        elif k == 'flush':
            out.append('%s@templ.Flush() {' % t)
            _emit(n['body'], ind + 1, out)
            out.append('%s}' % t)
        elif k == 'join':
            out.append('%s@templ.Join(%s)' % (t, ', '.join('p%d' % i for i in n['is'])))
        else:
            raise AssertionError(k)


def _ashape(rnd, idx):
    """Attribute list: items are const / handler / class / cond(then, else)."""
    events = EVENTS[:]
    rnd.shuffle(events)
    state = {'class': False, 'n': 0}

    def items(depth):
        out = []
        for _ in range(rnd.choice([1, 1, 2, 2, 3])):
            r = rnd.random()
            if depth < 3 and r < 0.4:
                n = {'k': 'cond', 'i': rnd.randrange(3), 'then': items(depth + 1)}
                if rnd.random() < 0.5:
                    n['else'] = items(depth + 1)
                out.append(n)
            elif r < 0.75 and events:
                out.append({'k': 'on', 'ev': events.pop(), 'i': rnd.randrange(3)})
            elif r < 0.85 and not state['class']:
                state['class'] = True
                out.append({'k': 'class', 'is': [rnd.randrange(3) for _ in range(rnd.randint(1, 2))], 'lit': idx % 2 == 1})
            else:
                state['n'] += 1
                out.append({'k': 'const', 'n': state['n']})
        return out

    return items(0)


def _emit_attrs(items, ind, out):
    t = '\t' * ind
    for n in items:
        k = n['k']
        if k == 'const':
            out.append('%sdata-c%d="v"' % (t, n['n']))
        elif k == 'on':
            out.append('%s%s={ s[%d] }' % (t, n['ev'], n['i']))
        elif k == 'class':
            ks = ['k[%d]' % i for i in n['is']]
            if n.get('lit'):  # plain class names around the components: `class={ "btn", k[0], "wide" }`
                ks = ['"sa"'] + ks + ['"sz"']
            out.append('%sclass={ %s }' % (t, ', '.join(ks)))
        elif k == 'cond':
            out.append('%sif c[%d] {' % (t, n['i']))
            _emit_attrs(n['then'], ind + 1, out)
            if 'else' in n:
                out.append('%s} else {' % t)
                _emit_attrs(n['else'], ind + 1, out)
            out.append('%s}' % t)


def _bshape(rnd, idx):
    """Statements around elements with handlers: if / else, switch, for; the same handler may
    sit in alternative branches."""
    budget = [rnd.randint(2, 8)]

    def body(depth):
        return [node(depth) for _ in range(rnd.choice([1, 1, 2, 2, 3]))]

    def node(depth):
        budget[0] -= 1
        if depth >= 3 or budget[0] <= 0 or rnd.random() < 0.45:
            return {'k': 'btn', 'ev': rnd.choice(EVENTS[:3]), 'i': rnd.randrange(2)}
        k = rnd.choice(['if', 'if', 'switch', 'for'])
        if k == 'if':
            return {'k': 'if', 'i': rnd.randrange(3), 'then': body(depth + 1), 'else': body(depth + 1)}
        if k == 'switch':
            return {'k': 'switch', 'i': rnd.randrange(3), 'then': body(depth + 1), 'else': body(depth + 1)}
        return {'k': 'for', 'body': body(depth + 1)}

    return body(0)


def _emit_b(nodes, ind, out):
    t = '\t' * ind
    for n in nodes:
        k = n['k']
        if k == 'btn':
            out.append('%s<button data-b={ id } %s={ s[%d] } type="button">bsh</button>' % (t, n['ev'], n['i']))
        elif k == 'if':
            out.append('%sif c[%d] {' % (t, n['i']))
            _emit_b(n['then'], ind + 1, out)
            out.append('%s} else {' % t)
            _emit_b(n['else'], ind + 1, out)
            out.append('%s}' % t)
        elif k == 'switch':
            out.append('%sswitch c[%d] {' % (t, n['i']))
            out.append('%s\tcase true:' % t)
            _emit_b(n['then'], ind + 2, out)
            out.append('%s\tdefault:' % t)
            _emit_b(n['else'], ind + 2, out)
            out.append('%s}' % t)
        elif k == 'for':
            out.append('%sfor i := 0; i < 2; i++ {' % t)
            _emit_b(n['body'], ind + 1, out)
            out.append('%s}' % t)


def generate(seed, n_shapes, n_ashapes, dropped=None, n_bshapes=32):
    """Returns (templ source, registry Go source, json text). dropped = {'shapes': {i..}, 'ashapes': {i..}}:
    members to replace by a trivial body (their generated code did not compile)."""
    dropped = dropped or {'shapes': set(), 'ashapes': set()}
    rnd = random.Random(seed * 1000003 + 7919)
    src = ['package corpus', '', '// Generated by /verif/sim/driver/shapes.py from VERIF_SEED=%d. Do not edit.' % seed, '']
    shapes, ashapes = [], []
    for i in range(n_shapes):
        b = _shape(rnd, i)
        if i in dropped['shapes']:
            b = [{'k': 'mark', 'n': 0}]
        shapes.append(b)
        src.append('templ Shape%d(id string, p0, p1, p2 templ.Component, c []bool, h []*templ.OnceHandle) {' % i)
        _emit(b, 1, src)
        src.append('}')
        src.append('')
    for i in range(n_ashapes):
        a = _ashape(rnd, i)
        if i in dropped['ashapes']:
            a = [{'k': 'const', 'n': 0}]
        ashapes.append(a)
        src.append('templ AShape%d(id string, s []templ.ComponentScript, k []any, c []bool) {' % i)
        src.append('\t<button')
        src.append('\t\tdata-sh={ id }')
        _emit_attrs(a, 2, src)
        src.append('\t>ash</button>')
        src.append('}')
        src.append('')
    bshapes = []
    dropped.setdefault('bshapes', set())
    for i in range(n_bshapes):
        b = _bshape(rnd, i)
        if i in dropped['bshapes']:
            b = [{'k': 'btn', 'ev': 'onclick', 'i': 0}]
        bshapes.append(b)
        src.append('templ BShape%d(id string, s []templ.ComponentScript, c []bool) {' % i)
        _emit_b(b, 1, src)
        src.append('}')
        src.append('')
    reg = ['package corpus', '', 'import (', '\t_ "embed"', '', '\t"github.com/a-h/templ"', ')', '',
           '//go:embed shapes.json', 'var ShapesJSON []byte', '',
           'var Shapes = []func(id string, p0, p1, p2 templ.Component, c []bool, h []*templ.OnceHandle) templ.Component{']
    reg += ['\tShape%d,' % i for i in range(n_shapes)] + ['}', '',
           'var AShapes = []func(id string, s []templ.ComponentScript, k []any, c []bool) templ.Component{']
    reg += ['\tAShape%d,' % i for i in range(n_ashapes)] + ['}', '',
           'var BShapes = []func(id string, s []templ.ComponentScript, c []bool) templ.Component{']
    reg += ['\tBShape%d,' % i for i in range(n_bshapes)] + ['}', '']
    return '\n'.join(src), '\n'.join(reg), json.dumps({'seed': seed, 'shapes': shapes, 'ashapes': ashapes, 'bshapes': bshapes, 'dropped': {k: sorted(v) for k, v in dropped.items()}})
