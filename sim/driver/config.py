"""Worlds, properties, tiers. Tiers are sized in runs; VERIF_SEED and the tier fix the exact
list of executions."""

WORLDS = {
    'render': {
        'pkg': 'zzverif/worlds/render',
        'rewrite': [('.', 'sync,sync/atomic'), ('runtime', 'sync,sync/atomic')],
        'needs_templ': True,
        'prep_hook': 'render_corpus',
        'post_build_hook': 'render_devfiles',
        'export_files': {'runtime/zz_verif_export.go': '''package runtime

// SetDevelopmentMode switches development-mode rendering (normally fixed at start-up from TEMPL_DEV_MODE).
func SetDevelopmentMode(b bool) { developmentMode = b }
'''},
        'trimpath': False,
    },
    'watch': {
        'pkg': 'zzverif/worlds/watch',
        'rewrite': [('cmd/templ/generatecmd', 'sync,os'), ('parser/v2', 'os'), ('cmd/templ/generatecmd/watcher', 'sync'), ('runtime', 'os')],
        'needs_templ': True,
        'prep_hook': 'watch_corpus',
        'extra_dirs': ['watchgen'],
        'trimpath': False,
        'export_files': {'runtime/zz_verif_export.go': '''package runtime

// SetDevelopmentMode switches development-mode rendering (normally fixed at start-up from TEMPL_DEV_MODE).
func SetDevelopmentMode(b bool) { developmentMode = b }
''', 'cmd/templ/generatecmd/watcher/zz_verif_export.go': '''package watcher

import (
	"context"
	"regexp"

	"github.com/fsnotify/fsnotify"
)

// Loop runs the event loop (coalescing of file system events) of a watcher built with
// NewRecursiveWatcher; Recursive starts it on a real fsnotify watcher.
func (w *RecursiveWatcher) Loop() { w.loop() }

// VerifWatcher, when set, is the source of raw file system events that VerifRecursive uses
// instead of a watcher of the operating system.
var VerifWatcher *fsnotify.Watcher

// VerifRW is what VerifRecursive returns: the one thing its caller does with it is Close.
type VerifRW struct{ close func() error }

func (v *VerifRW) Close() error { return v.close() }

// VerifRecursive stands in for Recursive (prep renames the call in cmd.go).
func VerifRecursive(ctx context.Context, path string, watchPattern *regexp.Regexp, out chan fsnotify.Event, errors chan error) (*VerifRW, error) {
	if VerifWatcher == nil {
		rw, err := Recursive(ctx, path, watchPattern, out, errors)
		if err != nil {
			return nil, err
		}
		return &VerifRW{close: rw.Close}, nil
	}
	lctx, cancel := context.WithCancel(ctx)
	rw := NewRecursiveWatcher(lctx, VerifWatcher, watchPattern, out, errors)
	go rw.loop()
	return &VerifRW{close: func() error { cancel(); return nil }}, nil
}
''', 'cmd/templ/generatecmd/run/zz_verif_export.go': '''package run

import (
	"context"
	"os/exec"
)

// VerifRunHook, when set, is called instead of starting the user's command.
var VerifRunHook func(ctx context.Context, workingDir, input string) error

// VerifRun stands in for Run (prep renames the calls in cmd.go).
func VerifRun(ctx context.Context, workingDir, input string) (*exec.Cmd, error) {
	if VerifRunHook != nil {
		return nil, VerifRunHook(ctx, workingDir, input)
	}
	return Run(ctx, workingDir, input)
}

// VerifKillAll stands in for KillAll.
func VerifKillAll() error {
	if VerifRunHook != nil {
		return nil
	}
	return KillAll()
}
'''},
        'callrename': [('cmd/templ/generatecmd', 'watcher.Recursive=VerifRecursive,run.Run=VerifRun,run.KillAll=VerifKillAll')],
    },
    'gen': {
        'pkg': 'zzverif/worlds/gen',
        'rewrite': [('cmd/templ/generatecmd', 'sync,os'), ('cmd/templ/generatecmd/watcher', 'sync,os'), ('parser/v2', 'os')],
    },
    'lsp': {
        'pkg': 'zzverif/worlds/lsp',
        'rewrite': [('lsp/jsonrpc2', 'sync'), ('cmd/templ/lspcmd/proxy', 'sync,os'), ('lsp/protocol', 'sync'),
                    ('cmd/templ/imports', 'golang.org/x/sync/errgroup')],
        'closeyield': ['lsp/jsonrpc2'],
        'extra_dirs': ['simnet'],
    },
    'rpc': {
        'pkg': 'zzverif/worlds/rpc',
        'rewrite': [('lsp/jsonrpc2', 'sync')],
        'closeyield': ['lsp/jsonrpc2'],
        'export_files': {'lsp/jsonrpc2/zz_verif_export.go': '''package jsonrpc2

// PendingLen reports how many calls are registered as in flight.
func PendingLen(c Conn) int {
	cc := c.(*conn)
	cc.pendingMu.Lock()
	defer cc.pendingMu.Unlock()
	return len(cc.pending)
}
'''},
    },
    'sse': {
        'pkg': 'zzverif/worlds/sse',
        'rewrite': [('cmd/templ/generatecmd/sse', 'sync')],
        'gostart': ['cmd/templ/generatecmd/sse'],
        'httpserve': ['cmd/templ/generatecmd'],
    },
}

RENDER_REAL = ['templ root package (runtime.go, once.go, flush.go, join.go, scripttemplate.go, handler.go)', 'templ/runtime (Buffer, buffer pool, GeneratedTemplate, WriteString)',
               'generated code of the combinator corpus, produced at check time by the working tree\'s generator', 'safehtml']

PROPS = {
    'C10': {
        'world': 'render',
        'level': 'fault_enumeration',
        'builds': {'default': {}},
        'tiers': {
            'quick': {'chunk': 64, 'runs': 1500, 'params': {'max_nodes': 30, 'all_offsets_upto': 512}, 'per_run_timeout': 5.0},
            'thorough': {'chunk': 64, 'runs': 80000, 'params': {'max_nodes': 40, 'all_offsets_upto': 8192}, 'per_run_timeout': 20.0, 'shrink_budget_s': 300},
        },
        'rule': 'one run = one sampled component tree (spec) x knobs (buffer size, pool policy, writer kind, sticky/one-shot fault, caller-owned buffer); per run EVERY '
                'expression / nested-component fault point, pre-cancelled context, cancellation at every fault point, and writer faults (short, zero, short-without-error) '
                'at every byte offset (all offsets for documents up to the tier limit; else first/last 64, every underlying write boundary +-1 and a stride) are each '
                'rendered once, followed by a clean render on the same pools; evaluations = faulted renders; distinct = (spec hash, knobs); non-trivial = at least one fault fired',
        'real': RENDER_REAL,
        'stubbed': ['io.Writer (fault at byte offset)', 'expression bodies', 'context cancellation', 'sync.Pool (simsync.Pool: LIFO / random / fresh / mixed)'],
        'assumptions': ['simsync.Pool may return any released object or a new one: a superset of sync.Pool behaviours', 'writers obey nothing beyond io.Writer', 'a worker process executes one block of 64 runs with one render-buffer size (the size varies between blocks)',
                        'programs are sampled; fault points are enumerated per program'],
    },
    'C11': {
        'world': 'render',
        'level': 'fault_enumeration',
        'builds': {'default': {}},
        'tiers': {
            'quick': {'chunk': 64, 'runs': 600, 'params': {'max_chunks': 6}, 'per_run_timeout': 5.0},
            'thorough': {'chunk': 64, 'runs': 40000, 'params': {'max_chunks': 10}, 'per_run_timeout': 10.0, 'shrink_budget_s': 300},
        },
        'rule': 'one run = one sampled component (0..N chunks of sizes 0 B..20 KB, hand-written or generated root, optional generated tree in front) x ALL 150 handler '
                'configurations (status unset/200/201/404/500 x content type default/2 custom x error handler unset/status+body/body only/nothing/headers+status+body x '
                'buffered/streaming) x EVERY failure point k in 0..chunks plus success plus cancelled request context, all requests of a configuration served by one handler '
                'value on one (adversarial) buffer pool; evaluations = requests; distinct = (chunk sizes, root kind, tree, knobs); non-trivial = at least one failing request',
        'real': ['templ.Handler / ComponentHandler.ServeHTTP, ServeHTTPBuffered, ServeHTTPStreamed', 'templ.GetBuffer/ReleaseBuffer', 'generated combinator corpus', 'templ/runtime buffers'],
        'stubbed': ['http.ResponseWriter (recorder with commit-time header snapshot)', 'failing components', 'request context', 'sync.Pool (simsync.Pool)'],
        'assumptions': ['the recorder commits headers at the first WriteHeader/Write like net/http', 'simsync.Pool is a superset of sync.Pool behaviours'],
    },
    'C12': {
        'world': 'render',
        'level': 'exploration',
        'builds': {'default': {}},
        'tiers': {
            'quick': {'chunk': 64, 'runs': 40000, 'params': {'max_nodes': 30, 'max_contexts': 4, 'max_steps': 2000}, 'per_run_timeout': 5.0},
            'thorough': {'chunk': 64, 'runs': 1500000, 'params': {'max_nodes': 60, 'max_contexts': 5, 'max_steps': 5000}, 'per_run_timeout': 10.0, 'shrink_budget_s': 300},
        },
        'rule': 'one run = a finite universe (2-7 script values over 5 script templates incl. JSFuncCall, 2-5 css components, 1-3 once handles, some created WithComponent) and '
                '1-4 contexts, each hosting 1-3 sequential renders of tape-drawn use trees (script component, on* attributes single/double/conditional/hx-on, class expressions '
                'in every container form, once handles with child block / marker / WithComponent, nested through calls, slots, conditionals, Join) into one writer; contexts are tasks '
                'interleaved at writer and expression seams; optionally served through NewCSSMiddleware with a registered subset; every context document is checked against the '
                'registry oracle. distinct = event-log hash; non-trivial = at least two uses were rendered and checked',
        'real': RENDER_REAL + ['templ.NewCSSMiddleware / CSSHandler', 'templ.Handler'],
        'stubbed': ['io.Writer / ResponseWriter (park at every write)', 'expression bodies', 'sync.Pool (simsync.Pool)'],
        'assumptions': ['the history dimension (use sequences checked against a reference registry) does the finding; the schedule dimension contributes independence of interleaved contexts (DESIGN section 2)',
                        'a context whose writer failed is only required to have failed (prefix rule is C10)',
                        'an item defined but never used is not judged (the statement bounds emission by "at most once" and "before first use")'],
    },
    'C13': {
        'world': 'render',
        'level': 'exploration',
        'builds': {'default': {}},
        'tiers': {
            'quick': {'chunk': 64, 'runs': 40000, 'params': {'max_nodes': 40, 'max_contexts': 3, 'max_steps': 2000}, 'per_run_timeout': 5.0},
            'thorough': {'chunk': 64, 'runs': 1500000, 'params': {'max_nodes': 80, 'max_contexts': 4, 'max_steps': 5000}, 'per_run_timeout': 10.0, 'shrink_budget_s': 300},
        },
        'rule': 'one run = 1-3 contexts (tasks interleaved at writer seams), each rendering 1-2 tape-drawn call trees into one writer: calls with / without block x callees '
                '{slot, slot twice, no slot, pass-down, slot-around, hand-written that renders children 0-2 times, once handle, templ.Flush, writer-swapping wrapper, '
                'hand-written callees that ignore children: Raw, ComponentFunc; generated Join wrapper} x positions (top level, inside a block, inside once/flush bodies, Join '
                'elements, sibling after a call); every block and callee carries a unique id; the marker structure of each document is compared token by token with a lexical-scoping '
                'reference model. distinct = event-log hash; non-trivial = at least four model tokens',
        'real': RENDER_REAL,
        'stubbed': ['io.Writer (park at every write)', 'sync.Pool (simsync.Pool)'],
        'assumptions': ['the history dimension (call trees against the lexical model) does the finding; the schedule dimension contributes cross-context independence (DESIGN section 2)',
                        'templ.Join is never given a block itself (what its elements should receive is not defined by the statement); a hand-written layer that passes its context on passes its children on'],
    },
    'C14': {
        'world': 'render',
        'level': 'exploration',
        'builds': {'default': {}, 'race': {'race': True}},
        'stages': [
            {'name': 'main', 'build': 'default'},
            {'name': 'race', 'build': 'race', 'params': {'burst': 1}, 'env': {'GORACE': 'halt_on_error=1'}, 'no_guard': True},
        ],
        'tiers': {
            'quick': {'chunk': 64, 'runs': 8000, 'stage_runs': {'race': 1500}, 'params': {'max_nodes': 10, 'max_tasks': 6, 'max_renders': 4, 'max_steps': 1500}, 'per_run_timeout': 5.0},
            'thorough': {'chunk': 64, 'runs': 600000, 'stage_runs': {'race': 100000}, 'params': {'max_nodes': 16, 'max_tasks': 8, 'max_renders': 5, 'max_steps': 4000}, 'per_run_timeout': 10.0, 'shrink_budget_s': 300},
        },
        'rule': 'one run = N tasks x M renders (own component, shared component value, or templ.Handler request) over shared once handles, pools and (dev-mode runs) the '
                'text-file cache, parked at every writer Write/Flush and expression evaluation; stage main: one task released at a time by the tape on the adversarial pool; '
                'stage race: -race build with the real sync.Pool, all parked tasks released together (bursts). distinct = (schedule hash, event-log hash); non-trivial = the '
                'schedule switched between tasks at least once (main) or ran bursts (race)',
        'real': RENDER_REAL + ['runtime/watchmode.go development-mode cache (dev-mode runs), text files written by the real FSEventHandler'],
        'stubbed': ['io.Writer / http.ResponseWriter (park at every write)', 'expression bodies (park)', 'sync.Pool (simsync.Pool in stage main; real in stage race)', 'sync.Mutex (channel mutex)'],
        'assumptions': ['tasks interleave only at seams (writer, flush, expression, start of render); code between two seams of one task is atomic in stage main',
                        'race detection inside a burst is by happens-before; a replay of a race report is same seed and burst structure, not a byte-identical trace',
                        'dev-mode TTL uses the real clock in this world; the text files are not edited here, so it cannot change bytes (C16 owns the TTL logic)'],
    },
    'C15': {
        'world': 'gen',
        'level': 'exploration',
        'builds': {'default': {}, 'race': {'race': True}},
        'stages': [
            {'name': 'main', 'build': 'default'},
            {'name': 'race', 'build': 'race', 'params': {'burst': 1}, 'env': {'GORACE': 'halt_on_error=1'}, 'no_guard': True},
        ],
        'tiers': {
            'quick': {'runs': 1200, 'stage_runs': {'race': 300}, 'params': {'max_files': 24, 'max_steps': 20000}, 'per_run_timeout': 20.0, 'chunk': 25},
            'thorough': {'runs': 40000, 'stage_runs': {'race': 8000}, 'params': {'max_files': 60, 'max_steps': 60000}, 'per_run_timeout': 60.0, 'chunk': 50, 'shrink_budget_s': 400},
        },
        'rule': 'one run = a tape-drawn directory tree in a real temporary directory (depth <= 4; skipped and non-skipped directory names; 1-N templates from the repository\'s own '
                'generator test inputs; failing files: truncated templates, non-Go expressions; orphaned, stale and up-to-date _templ.go files; unrelated files) x worker count 1-16 x '
                'keep-orphaned / lazy / include-version x injected disk faults (EIO on one template read, ENOSPC or short write on one output) x a schedule: every os call of the command '
                'parks (named by path) and the tape picks who proceeds (stage main) or all proceed at once in a -race build (stage race); then Run is executed a second time. '
                'distinct = event-log hash; non-trivial = the schedule switched between tasks (main) or ran bursts (race)',
        'real': ['generatecmd.NewGenerate(...).Run (walker, semaphore-bounded workers, error and post-generation goroutines)', 'FSEventHandler', 'watcher.WalkFiles', 'internal/skipdir', 'parser', 'generator', 'go/format'],
        'stubbed': ['os.* of the command (simos: park + fault layer over a real temporary directory)', 'sync.Mutex (channel mutex)', 'fsnotify and watch mode are not run'],
        'assumptions': ['faults are not injected on Stat (a failed stat is read as "not modified") nor on Remove of an orphan', 'with Lazy, pre-existing newer _templ.go files are only ever correct ones',
                        'the sandbox file system is trusted for content, not for timing (mtimes are set explicitly)', 'tasks the simulator cannot tell apart (same path, same call) are released together'],
    },
    'C16': {
        'world': 'watch',
        'level': 'exploration',
        'builds': {'default': {}},
        'tiers': {
            'quick': {'runs': 4000, 'families': 40, 'params': {'max_actions': 40}, 'per_run_timeout': 5.0},
            'thorough': {'runs': 120000, 'families': 250, 'params': {'max_actions': 120}, 'per_run_timeout': 10.0, 'shrink_budget_s': 300},
        },
        'rule': 'prep draws (from VERIF_SEED) N families of template variants v0->..->vk (k<=5) by the edit operators of the statement (static text edits incl. quotes, backslashes, '
                'newlines, non-ASCII and control bytes; attribute renames among title/data-*/class/style/id/alt and to href; moving an expression between text, attribute, script, '
                'script-string and comment positions; reorder / insert / delete of nodes; Go expression changes), generates every variant with the working tree generator and '
                'compiles all of them into the world. One run = one family and a tape-driven history of edit / watch (real FSEventHandler) / advance fake clock / render / restart app / '
                'restart watcher / unparseable edit; whenever the handler has seen the latest edit and the TTL has passed, dev-mode output of the compiled variant must equal the normal '
                'output of the edited variant for six argument sets. Faults: a save landing while the handler is at work or while the program is loading its text file, text files unreachable for a while, '
                'a text file cut short by a failed write, app and watcher restarts. Every fifth run is the pipeline world instead: the real Generate.Run in watch mode with --cmd '
                '(walk, watcher loop, worker pool, post-generation collector) on raw file system events supplied by the world, saves of variants with fake-clock times, workers held '
                'before they report; two seconds after the last save the generated Go code on disk must equal, literals and source positions aside, what the running command was built from. '
                'distinct = event-log hash; non-trivial = at least one edit',
        'real': ['FSEventHandler.HandleEvent/generate (text file writing, hash suppression, GoUpdated/TextUpdated)', 'generator.HasChanged', 'runtime.WriteString development-mode path with its mtime/TTL cache',
                 'generated code of every variant (working tree generator)', 'parser', 'pipeline world: generatecmd.(*Generate).Run in watch mode (walk, watcher.loop, workers, post-generation collector)'],
        'stubbed': ['clock (synctest fake clock)', 'the source file (simos overlay: content + mtime from the fake clock)', 'the editor', 'rebuild+restart of the app and restart of the watcher (model)',
                    'fsnotify itself (half of the runs feed raw Write events into the real watcher.loop through a backend-less fsnotify.Watcher value, so its 100 ms coalescing runs on the fake clock); the post-generation collector of cmd.go runs in the pipeline world only)', 'pipeline world: the operating system\'s file watcher (raw events come from the world) and the user\'s command (a stand-in records each (re)start)'],
        'assumptions': ['two saves never share an mtime tick (the model advances the fake clock by 1 ms before every write)', 'renders sooner than 2 s after the text file was written are only required to equal some variant the text file has held since the build (the implementation caches for 100 ms; the statement sets no bound and the oracle does not mirror the constant)', 'the coalesced event for a save must come out of the watcher loop within 2 s',
                        'a restarted watcher handles every file once and the program is rebuilt, as the initial walk of templ generate --watch does'],
    },
    'C17': {
        'world': 'lsp',
        'level': 'exploration',
        'builds': {'default': {}},
        'tiers': {
            'quick': {'runs': 3000, 'params': {'max_actions': 120, 'max_edits': 40, 'max_steps': 6000}, 'per_run_timeout': 10.0},
            'thorough': {'runs': 400000, 'params': {'max_actions': 400, 'max_edits': 150, 'max_steps': 20000}, 'per_run_timeout': 30.0, 'shrink_budget_s': 300},
        },
        'rule': 'one run = an editor history (didOpen of a small random or real templ document, then up to N didChange notifications with 1-4 changes each: full replace, '
                'insert, delete, replace, single- and multi-line, at 0:0, at the very end, positions beyond line/document end, plus occasional didClose/reopen) encoded by the '
                'simulator\'s own codec and delivered in tape-chosen chunks while the handler goroutines of the production chain CancelHandler(AsyncHandler(ReplyHandler(ServerHandler))) '
                'and the stub gopls are scheduled by the tape; at every point where the server has processed everything sent, its copy is compared with a byte-splice reference and the '
                'text last forwarded to gopls with the generation of the latest parseable reference. distinct = event-log hash; non-trivial = at least one change applied',
        'real': ['lsp/jsonrpc2 stream + conn', 'lsp/protocol.NewServer with the production handler chain and server dispatch', 'cmd/templ/lspcmd/proxy.Server DidOpen/DidChange/DidClose, DocumentContents/Document.Apply', 'parser, generator'],
        'stubbed': ['byte transport (parks, chunking)', 'the editor (reference model)', 'gopls (lsp.Server stub that records forwarded text and parks)', 'sync.Mutex (channel mutex)'],
        'assumptions': ['ASCII documents only: LSP columns are UTF-16 units, the server uses byte columns; whether that is a defect is outside this statement',
                        'the editor never sends a range whose start lies after its end', 'the only request sent is workspace/symbol (answered by the stub), and it may be cancelled',
                        'worker processes of this world run with GOMAXPROCS=1: when one release makes two goroutines runnable at once (a handler that has just replied and the handler it unblocked) the running one continues first; the opposite order is not explored'],
    },
    'C18': {
        'world': 'rpc',
        'level': 'exploration',
        'builds': {'default': {}},
        'tiers': {
            'quick': {'runs': 4000, 'params': {'max_msgs': 12, 'all_prefixes_upto': 1500, 'max_callers': 5, 'max_calls': 4, 'max_actions': 200, 'max_steps': 3000}, 'per_run_timeout': 5.0},
            'thorough': {'runs': 120000, 'params': {'max_msgs': 30, 'all_prefixes_upto': 8000, 'max_callers': 6, 'max_calls': 6, 'max_actions': 600, 'max_steps': 8000}, 'per_run_timeout': 20.0, 'shrink_budget_s': 300},
        },
        'rule': 'runs rotate over three sub-checks. F: a seeded message sequence (calls, notifications, result and error responses; numeric and string ids; multi-byte, '
                'CRLFCRLF-bearing and up to 50 KB payloads) written by the real stream.Write, split by an independent codec, re-chunked by the tape (1 byte .. whole) and read '
                'back by the real stream.Read. T: EOF at every prefix length of a valid stream (all prefixes up to the tier limit, else a stride) and 18 malformed-header shapes. '
                'C (half of the runs): 1-5 caller tasks and 0-2 notifier tasks on one real conn inside a synctest bubble; transport writes park between and inside frames while '
                'writeMu is held; a scripted peer answers out of order, late, with errors or never, sends its own requests; callers are cancelled while blocked. '
                'distinct = sub-check + event-log hash; every run is non-trivial by construction (at least one message or call)',
        'real': ['lsp/jsonrpc2 stream (Read/Write), conn (Call, Notify, run, write, replier), AsyncHandler, ReplyHandler, message and wire codecs'],
        'stubbed': ['io.ReadWriteCloser transport (parks at every Read/Write, tape-chosen chunking)', 'the peer (scripted, own 40-line frame codec)', 'sync.Mutex (channel mutex)', 'caller contexts'],
        'assumptions': ['states with a multi-ready select are not generated: a call is cancelled only while its caller is blocked in Call and no reply has been sent for it',
                        'duplicate responses are not injected (a byte stream does not duplicate)', 'worker processes of this world run with GOMAXPROCS=1 (goroutines made runnable by one release run in run-queue order); lock hand-overs of the conn are seams for a random subset of runs', 'Content-Length values near 2^31 are excluded (slow allocation, not a hang)',
                        'absent and null JSON members are the same value on the wire'],
    },
    'C19': {
        'world': 'sse',
        'level': 'exploration',
        'builds': {'default': {}, 'race': {'race': True}},
        'stages': [
            {'name': 'main', 'build': 'default'},
            {'name': 'race', 'build': 'race', 'params': {'burst': 1}, 'env': {'GORACE': 'halt_on_error=1'}, 'no_guard': True},
        ],
        'tiers': {
            'quick': {'runs': 6000, 'stage_runs': {'race': 1500}, 'params': {'max_clients': 5, 'max_actions': 40, 'max_steps': 600}},
            'thorough': {'runs': 1500000, 'stage_runs': {'race': 150000}, 'params': {'max_clients': 8, 'max_actions': 120, 'max_steps': 2500}, 'shrink_budget_s': 300},
        },
        'rule': 'one run = one tape-driven schedule of connect/broadcast/release/fail/cancel/stall/advance actions against the real sse.Handler '
                'behind proxy.Handler inside a synctest bubble; distinct = distinct event-log hash; non-trivial = at least one client and one '
                'broadcast and (a fault fired or the schedule switched between tasks). Stage race: the same world in a -race build where a client may connect or an idle client '
                'may leave at the very moment of a broadcast (no quiescence in between); a race report, a crash or a lost event is the violation. Every fourth run is the '
                'HTTP-server world instead: Generate.StartProxy starts its own net/http server (ListenAndServe redirected by prep to an in-memory listener), tabs are goroutines '
                'speaking HTTP/1.1 over net.Pipe connections with deadlines on the fake clock; actions connect / broadcast (SendSSE or POST) / freeze-thaw a tab / close a tab / '
                'advance 1 ms .. 11 min; after faults stop every tab left open must hold every reload broadcast while it was subscribed and its stream must not have ended',
        'real': ['cmd/templ/generatecmd/sse.Handler (Send, ServeHTTP)', 'cmd/templ/generatecmd/proxy.Handler routing and SendSSE',
                 'HTTP-server world: generatecmd.(*Generate).StartProxy and the net/http server it configures and starts (server loop, timeouts, chunked streaming, flushing)'],
        'stubbed': ['http.ResponseWriter/Flusher (parks on every Write) in the handler world', 'request contexts', 'clock (testing/synctest fake clock)', 'TCP (net.Pipe connections from an in-memory listener)', 'browser (EventSource parser)', 'the proxied application (never contacted)'],
        'assumptions': [
            'states in which a select has more than one ready case are not generated (runtime choice is unseedable): a client with a pending delivery leaves by write failure, not by bare context cancellation; the clock advances only when every non-stalled client is idle',
            'sync.Mutex in the sse package is replaced by a channel-based mutex (durable blocking under synctest)',
            'a connection whose write failed also has its request context cancelled, as net/http does',
        ],
    },
}
