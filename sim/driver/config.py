"""Worlds, properties, tiers. Tiers are sized in runs; VERIF_SEED and the tier fix the exact
list of executions."""

WORLDS = {
    'sse': {
        'pkg': 'zzverif/worlds/sse',
        'rewrite': [('cmd/templ/generatecmd/sse', 'sync')],
    },
}

PROPS = {
    'C19': {
        'world': 'sse',
        'level': 'exploration',
        'builds': {'default': {}},
        'tiers': {
            'quick': {'runs': 6000, 'params': {'max_clients': 5, 'max_actions': 40, 'max_steps': 600}},
            'thorough': {'runs': 150000, 'params': {'max_clients': 8, 'max_actions': 120, 'max_steps': 2500}, 'shrink_budget_s': 300},
        },
        'rule': 'one run = one tape-driven schedule of connect/broadcast/release/fail/cancel/stall/advance actions against the real sse.Handler '
                'behind proxy.Handler inside a synctest bubble; distinct = distinct event-log hash; non-trivial = at least one client and one '
                'broadcast and (a fault fired or the schedule switched between tasks)',
        'real': ['cmd/templ/generatecmd/sse.Handler (Send, ServeHTTP)', 'cmd/templ/generatecmd/proxy.Handler routing and SendSSE'],
        'stubbed': ['http.ResponseWriter/Flusher (parks on every Write)', 'request contexts', 'clock (testing/synctest fake clock)', 'net/http server loop, browser'],
        'assumptions': [
            'states in which a select has more than one ready case are not generated (runtime choice is unseedable): a client with a pending delivery leaves by write failure, not by bare context cancellation; the clock advances only when every non-stalled client is idle',
            'sync.Mutex in the sse package is replaced by a channel-based mutex (durable blocking under synctest)',
            'a connection whose write failed also has its request context cancelled, as net/http does',
        ],
    },
}
