import os, shutil
from driver import sh, goenv, log, Infra

def render_corpus(ctx, prop, tier, cfg, world):
    """Generate the combinator corpus with the working tree's own generator (CLI built from the scratch copy)."""
    d = os.path.join(ctx['src'], 'zzverif', 'worlds', 'render', 'corpus')
    p = sh([os.path.join(ctx['bindir'], 'templ'), 'generate', '-path', d], cwd=ctx['src'], env=goenv(), check=False)
    if p.returncode != 0 or not os.path.exists(os.path.join(d, 'c_templ.go')):
        raise Infra('templ generate failed on the render corpus:\n' + p.stdout[-3000:])
