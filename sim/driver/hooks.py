import os, shutil
from driver import sh, goenv, log, Infra

def render_corpus(ctx, prop, tier, cfg, world):
    """Generate the combinator corpus and the seeded template families with the working tree's own
    generator (CLI built from the scratch copy). A seeded template whose generated code does not
    compile cannot be used to decide anything: it is replaced by a trivial one and reported in the
    evidence (ctx['notes']); the fixed corpus failing to generate or compile is build trouble."""
    import shapes, re, json
    d = os.path.join(ctx['src'], 'zzverif', 'worlds', 'render', 'corpus')
    seed = int(os.environ.get('VERIF_SEED', '1') or '1')
    tcfg = cfg['tiers'][tier]
    dropped = {'shapes': set(), 'ashapes': set(), 'bshapes': set()}
    for attempt in range(6):
        src, reg, js = shapes.generate(seed, tcfg.get('shapes', 64), tcfg.get('ashapes', 48), dropped)
        for name, text in (('shapes.templ', src), ('shapes_reg.go', reg), ('shapes.json', js)):
            with open(os.path.join(d, name), 'w') as f:
                f.write(text)
        p = sh([os.path.join(ctx['bindir'], 'templ'), 'generate', '-path', d], cwd=ctx['src'], env=goenv(), check=False)
        if p.returncode != 0 or not os.path.exists(os.path.join(d, 'c_templ.go')) or not os.path.exists(os.path.join(d, 'shapes_templ.go')):
            raise Infra('templ generate failed on the render corpus:\n' + p.stdout[-3000:])
        b = sh([os.environ.get('VERIF_GO', 'go1.26.8'), 'build', '-gcflags=-e', './zzverif/worlds/render/corpus'], cwd=ctx['src'], env=goenv(), check=False)
        if b.returncode == 0:
            break
        # which seeded templates do the errors belong to?
        gen = open(os.path.join(d, 'shapes_templ.go')).read().split('\n')
        starts = [(i + 1, m.group(1), int(m.group(2))) for i, l in enumerate(gen) for m in [re.match(r'func ([AB]?Shape)(\d+)\(', l)] if m]
        bad = set()
        other = []
        for m in re.finditer(r'corpus/([a-z_]+\.go):(\d+):\d+: (.*)', b.stdout):
            if m.group(3).startswith('too many errors'):
                continue
            if m.group(1) != 'shapes_templ.go':
                other.append(m.group(0))
                continue
            ln = int(m.group(2))
            owner = [st for st in starts if st[0] <= ln]
            if owner:
                bad.add((owner[-1][1], owner[-1][2]))
        if other or not bad:
            raise Infra('the render corpus does not compile:\n' + b.stdout[-3000:])
        for kind, i in bad:
            dropped[{'Shape': 'shapes', 'AShape': 'ashapes', 'BShape': 'bshapes'}[kind]].add(i)
    else:
        raise Infra('seeded templates still do not compile after dropping %s' % dropped)
    nd = len(dropped['shapes']) + len(dropped['ashapes']) + len(dropped['bshapes'])
    if nd:
        note = 'generated code of %d seeded template(s) did not compile; they were replaced by trivial ones: Shape%s AShape%s' % (nd, sorted(dropped['shapes']), sorted(dropped['ashapes']))
        log('[prep %s] WARNING: %s' % (prop, note))
        ctx.setdefault('notes', []).append(note)


def watch_corpus(ctx, prop, tier, cfg, world):
    """Generate the variant families (seeded) and their Go code with the working tree's generator."""
    d = os.path.join(ctx['src'], 'zzverif', 'worlds', 'watch')
    seed = int(os.environ.get('VERIF_SEED', '1') or '1')
    nfam = cfg['tiers'][tier].get('families', 30)
    gen = os.path.join(ctx['bindir'], 'watchgen')
    sh(['go1.26.8' if False else os.environ.get('VERIF_GO', 'go1.26.8'), 'build', '-trimpath', '-o', gen, './zzverif/watchgen'], cwd=ctx['src'], env=goenv())
    sh([gen, '-seed', str(seed), '-families', str(nfam), '-out', d], cwd=ctx['src'], env=goenv())
    p = sh([os.path.join(ctx['bindir'], 'templ'), 'generate', '-path', os.path.join(d, 'fam')], cwd=ctx['src'], env=goenv(), check=False)
    if p.returncode != 0:
        raise Infra('templ generate failed on the watch corpus:\n' + p.stdout[-3000:])


def render_devfiles(ctx, prop, tier, cfg, world):
    """Write the development-mode text files of the corpus once, with the real watch-mode event handler
    (inside the world's own test binary); the workers copy them instead of generating them again."""
    d = os.path.join(ctx['scratch'], 'devfiles')
    os.makedirs(d, exist_ok=True)
    b = ctx['binaries'].get('default') or list(ctx['binaries'].values())[0]
    e = goenv(dict(ctx['env'], VSIM_DEVFILES_OUT=d))
    p = sh([b, '-test.run', '^TestDevFiles$', '-test.count', '1'], cwd=os.path.dirname(b), env=e, check=False, timeout=600)
    if p.returncode != 0 or not os.listdir(d):
        raise Infra('writing the development-mode text files failed:\n' + p.stdout[-3000:])
    ctx['env']['VSIM_DEVFILES'] = d
