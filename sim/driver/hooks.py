import os, shutil
from driver import sh, goenv, log, Infra

def render_corpus(ctx, prop, tier, cfg, world):
    """Generate the combinator corpus with the working tree's own generator (CLI built from the scratch copy)."""
    d = os.path.join(ctx['src'], 'zzverif', 'worlds', 'render', 'corpus')
    p = sh([os.path.join(ctx['bindir'], 'templ'), 'generate', '-path', d], cwd=ctx['src'], env=goenv(), check=False)
    if p.returncode != 0 or not os.path.exists(os.path.join(d, 'c_templ.go')):
        raise Infra('templ generate failed on the render corpus:\n' + p.stdout[-3000:])


def watch_corpus(ctx, prop, tier, cfg, world):
    """Generate the variant families (seeded) and their Go code with the working tree's generator."""
    d = os.path.join(ctx['src'], 'zzverif', 'worlds', 'watch')
    seed = int(os.environ.get('VERIF_SEED', '1') or '1')
    nfam = cfg['tiers'][tier].get('families', 30)
    gen = os.path.join(ctx['bindir'], 'watchgen')
    sh(['go1.26.8' if False else os.environ.get('VERIF_GO', 'go1.26.8'), 'build', '-trimpath', '-o', gen, './zzverif/watchgen'], cwd=ctx['src'], env=goenv())
    sh([gen, '-seed', str(seed), '-families', str(nfam), '-out', d], cwd=ctx['src'], env=goenv())
    p = sh([os.path.join(ctx['bindir'], 'templ'), 'generate', '-path', os.path.join(d, 'fam')], cwd=ctx['src'], env=goenv(), check=False)
    if p.returncode != 0:
        raise Infra('templ generate failed on the watch corpus:\n' + p.stdout[-3000:])
