// Command simprep instruments a scratch copy of the repository: it rewrites the
// imports of the named package directories so that "sync" and/or "os" resolve to the
// simulator's shims, and generates the simos re-export file from the real os package.
package main

import (
	"bytes"
	"flag"
	"fmt"
	"go/ast"
	"go/format"
	"go/importer"
	"go/parser"
	"go/token"
	"go/types"
	"os"
	"path/filepath"
	"sort"
	"strconv"
	"strings"
)

func main() {
	mode := flag.String("mode", "rewrite", "rewrite | genos | gostart | closeyield | httpserve | callrename")
	shims := flag.String("shims", "sync,os", "comma separated std packages to redirect")
	mod := flag.String("mod", "github.com/a-h/templ/zzverif/shim", "import path prefix of the shims")
	out := flag.String("out", "", "genos: output file")
	renames := flag.String("renames", "", "callrename: comma separated pkg.Func=NewFunc (calls pkg.Func(...) become pkg.NewFunc(...))")
	overrides := flag.String("overrides", "", "genos: comma separated names NOT to re-export (hand-written in the shim)")
	flag.Parse()
	switch *mode {
	case "rewrite":
		m := map[string]string{}
		for _, s := range strings.Split(*shims, ",") {
			if s == "" {
				continue
			}
			if strings.Contains(s, ".") { // a module outside std: the shim is named after its last element
				m[s] = *mod + "/sim" + s[strings.LastIndexByte(s, '/')+1:]
				continue
			}
			m[s] = *mod + "/sim" + s
		}
		n := 0
		for _, dir := range flag.Args() {
			c, err := rewriteDir(dir, m)
			if err != nil {
				fmt.Fprintln(os.Stderr, err)
				os.Exit(1)
			}
			n += c
		}
		fmt.Printf("rewrote %d imports\n", n)
	case "gostart":
		n := 0
		for _, dir := range flag.Args() {
			c, err := goStartDir(dir, *mod+"/simhook")
			if err != nil {
				fmt.Fprintln(os.Stderr, err)
				os.Exit(1)
			}
			n += c
		}
		fmt.Printf("instrumented %d go statements\n", n)
	case "closeyield":
		n := 0
		for _, dir := range flag.Args() {
			c, err := closeYieldDir(dir, *mod+"/simhook")
			if err != nil {
				fmt.Fprintln(os.Stderr, err)
				os.Exit(1)
			}
			n += c
		}
		fmt.Printf("instrumented %d close statements\n", n)
	case "callrename":
		m := map[string]string{}
		for _, r := range strings.Split(*renames, ",") {
			if a, b, ok := strings.Cut(r, "="); ok {
				m[a] = b
			}
		}
		n := 0
		for _, dir := range flag.Args() {
			c, err := callRenameDir(dir, m)
			if err != nil {
				fmt.Fprintln(os.Stderr, err)
				os.Exit(1)
			}
			n += c
		}
		fmt.Printf("renamed %d calls\n", n)
	case "httpserve":
		n := 0
		for _, dir := range flag.Args() {
			c, err := httpServeDir(dir, *mod+"/simhook")
			if err != nil {
				fmt.Fprintln(os.Stderr, err)
				os.Exit(1)
			}
			n += c
		}
		fmt.Printf("redirected %d ListenAndServe calls\n", n)
	case "genos":
		if err := genReexport("os", "simos", *out, strings.Split(*overrides, ",")); err != nil {
			fmt.Fprintln(os.Stderr, err)
			os.Exit(1)
		}
	}
}

func rewriteDir(dir string, m map[string]string) (int, error) {
	ents, err := os.ReadDir(dir)
	if err != nil {
		return 0, err
	}
	n := 0
	for _, e := range ents {
		name := e.Name()
		if e.IsDir() || !strings.HasSuffix(name, ".go") || strings.HasSuffix(name, "_test.go") || strings.HasPrefix(name, "zz_verif") {
			continue
		}
		p := filepath.Join(dir, name)
		fset := token.NewFileSet()
		f, err := parser.ParseFile(fset, p, nil, parser.ParseComments)
		if err != nil {
			return n, err
		}
		changed := false
		for _, imp := range f.Imports {
			path, _ := strconv.Unquote(imp.Path.Value)
			to, ok := m[path]
			if !ok {
				continue
			}
			if imp.Name != nil && (imp.Name.Name == "_" || imp.Name.Name == ".") {
				continue
			}
			if imp.Name == nil {
				imp.Name = ast.NewIdent(path[strings.LastIndexByte(path, '/')+1:])
			}
			imp.Path.Value = strconv.Quote(to)
			changed = true
			n++
		}
		if !changed {
			continue
		}
		var buf bytes.Buffer
		if err := format.Node(&buf, fset, f); err != nil {
			return n, err
		}
		if err := os.WriteFile(p, buf.Bytes(), 0o644); err != nil {
			return n, err
		}
	}
	return n, nil
}

// goStartDir inserts simhook.GoStart("<file>:<line>") at the top of the body of every
// `go func(...) {...}(...)` statement in the non-test files of dir.
func goStartDir(dir, hookPath string) (int, error) {
	ents, err := os.ReadDir(dir)
	if err != nil {
		return 0, err
	}
	total := 0
	for _, e := range ents {
		name := e.Name()
		if e.IsDir() || !strings.HasSuffix(name, ".go") || strings.HasSuffix(name, "_test.go") || strings.HasPrefix(name, "zz_verif") {
			continue
		}
		p := filepath.Join(dir, name)
		fset := token.NewFileSet()
		f, err := parser.ParseFile(fset, p, nil, parser.ParseComments)
		if err != nil {
			return total, err
		}
		n := 0
		ast.Inspect(f, func(nd ast.Node) bool {
			g, ok := nd.(*ast.GoStmt)
			if !ok {
				return true
			}
			fl, ok := g.Call.Fun.(*ast.FuncLit)
			if !ok {
				return true
			}
			site := fmt.Sprintf("%s:%d", name, fset.Position(g.Pos()).Line)
			call := &ast.ExprStmt{X: &ast.CallExpr{
				Fun:  &ast.SelectorExpr{X: ast.NewIdent("verifsimhook"), Sel: ast.NewIdent("GoStart")},
				Args: []ast.Expr{&ast.BasicLit{Kind: token.STRING, Value: strconv.Quote(site)}},
			}}
			fl.Body.List = append([]ast.Stmt{call}, fl.Body.List...)
			n++
			return true
		})
		if n == 0 {
			continue
		}
		// add the import
		imp := &ast.ImportSpec{Name: ast.NewIdent("verifsimhook"), Path: &ast.BasicLit{Kind: token.STRING, Value: strconv.Quote(hookPath)}}
		added := false
		for _, d := range f.Decls {
			if gd, ok := d.(*ast.GenDecl); ok && gd.Tok == token.IMPORT {
				gd.Specs = append(gd.Specs, imp)
				if !gd.Lparen.IsValid() {
					gd.Lparen = gd.Pos()
					gd.Rparen = gd.End()
				}
				added = true
				break
			}
		}
		if !added {
			f.Decls = append([]ast.Decl{&ast.GenDecl{Tok: token.IMPORT, Specs: []ast.Spec{imp}}}, f.Decls...)
		}
		var buf bytes.Buffer
		if err := format.Node(&buf, fset, f); err != nil {
			return total, err
		}
		if err := os.WriteFile(p, buf.Bytes(), 0o644); err != nil {
			return total, err
		}
		total += n
	}
	return total, nil
}

// closeYieldDir inserts simhook.Yield("<file>:<line>") after every `close(ch)` statement in the
// non-test files of dir: closing a channel may make another goroutine runnable while this one
// carries on, and the world may want to hold this one there.
func closeYieldDir(dir, hookPath string) (int, error) {
	ents, err := os.ReadDir(dir)
	if err != nil {
		return 0, err
	}
	total := 0
	for _, e := range ents {
		name := e.Name()
		if e.IsDir() || !strings.HasSuffix(name, ".go") || strings.HasSuffix(name, "_test.go") || strings.HasPrefix(name, "zz_verif") {
			continue
		}
		p := filepath.Join(dir, name)
		fset := token.NewFileSet()
		f, err := parser.ParseFile(fset, p, nil, parser.ParseComments)
		if err != nil {
			return total, err
		}
		n := 0
		fix := func(list []ast.Stmt) []ast.Stmt {
			var out []ast.Stmt
			for _, st := range list {
				out = append(out, st)
				es, ok := st.(*ast.ExprStmt)
				if !ok {
					continue
				}
				call, ok := es.X.(*ast.CallExpr)
				if !ok {
					continue
				}
				if id, ok := call.Fun.(*ast.Ident); !ok || id.Name != "close" || len(call.Args) != 1 {
					continue
				}
				site := fmt.Sprintf("%s:%d", name, fset.Position(st.Pos()).Line)
				out = append(out, &ast.ExprStmt{X: &ast.CallExpr{
					Fun:  &ast.SelectorExpr{X: ast.NewIdent("verifsimhook"), Sel: ast.NewIdent("Yield")},
					Args: []ast.Expr{&ast.BasicLit{Kind: token.STRING, Value: strconv.Quote(site)}},
				}})
				n++
			}
			return out
		}
		ast.Inspect(f, func(nd ast.Node) bool {
			switch x := nd.(type) {
			case *ast.BlockStmt:
				x.List = fix(x.List)
			case *ast.CaseClause:
				x.Body = fix(x.Body)
			case *ast.CommClause:
				x.Body = fix(x.Body)
			}
			return true
		})
		if n == 0 {
			continue
		}
		hasImport := false
		for _, imp := range f.Imports {
			if imp.Name != nil && imp.Name.Name == "verifsimhook" {
				hasImport = true
			}
		}
		if !hasImport {
			imp := &ast.ImportSpec{Name: ast.NewIdent("verifsimhook"), Path: &ast.BasicLit{Kind: token.STRING, Value: strconv.Quote(hookPath)}}
			added := false
			for _, d := range f.Decls {
				if gd, ok := d.(*ast.GenDecl); ok && gd.Tok == token.IMPORT {
					gd.Specs = append(gd.Specs, imp)
					if !gd.Lparen.IsValid() {
						gd.Lparen = gd.Pos()
						gd.Rparen = gd.End()
					}
					added = true
					break
				}
			}
			if !added {
				f.Decls = append([]ast.Decl{&ast.GenDecl{Tok: token.IMPORT, Specs: []ast.Spec{imp}}}, f.Decls...)
			}
		}
		var buf bytes.Buffer
		if err := format.Node(&buf, fset, f); err != nil {
			return total, err
		}
		if err := os.WriteFile(p, buf.Bytes(), 0o644); err != nil {
			return total, err
		}
		total += n
	}
	return total, nil
}

// httpServeDir redirects the two ways of starting an HTTP server on a TCP address -
// http.ListenAndServe(addr, h) and srv.ListenAndServe() - to the hook package, which serves on
// a listener of the world's when one is installed (and does the real thing otherwise).
func httpServeDir(dir, hookPath string) (int, error) {
	ents, err := os.ReadDir(dir)
	if err != nil {
		return 0, err
	}
	total := 0
	for _, e := range ents {
		name := e.Name()
		if e.IsDir() || !strings.HasSuffix(name, ".go") || strings.HasSuffix(name, "_test.go") || strings.HasPrefix(name, "zz_verif") {
			continue
		}
		p := filepath.Join(dir, name)
		fset := token.NewFileSet()
		f, err := parser.ParseFile(fset, p, nil, parser.ParseComments)
		if err != nil {
			return total, err
		}
		n := 0
		ast.Inspect(f, func(nd ast.Node) bool {
			call, ok := nd.(*ast.CallExpr)
			if !ok {
				return true
			}
			sel, ok := call.Fun.(*ast.SelectorExpr)
			if !ok || sel.Sel.Name != "ListenAndServe" {
				return true
			}
			if id, ok := sel.X.(*ast.Ident); ok && id.Name == "http" && len(call.Args) == 2 {
				call.Fun = &ast.SelectorExpr{X: ast.NewIdent("verifsimhook"), Sel: ast.NewIdent("ListenAndServe")}
				n++
				return true
			}
			if len(call.Args) == 0 {
				call.Args = []ast.Expr{sel.X}
				call.Fun = &ast.SelectorExpr{X: ast.NewIdent("verifsimhook"), Sel: ast.NewIdent("ServerListenAndServe")}
				n++
			}
			return true
		})
		// a listener made first and handed to Serve: net.Listen(network, addr) and
		// listenConfig.Listen(ctx, network, addr)
		ast.Inspect(f, func(nd ast.Node) bool {
			call, ok := nd.(*ast.CallExpr)
			if !ok {
				return true
			}
			sel, ok := call.Fun.(*ast.SelectorExpr)
			if !ok || sel.Sel.Name != "Listen" {
				return true
			}
			if id, ok := sel.X.(*ast.Ident); ok && id.Name == "net" && len(call.Args) == 2 {
				call.Fun = &ast.SelectorExpr{X: ast.NewIdent("verifsimhook"), Sel: ast.NewIdent("NetListen")}
				n++
				return true
			}
			if len(call.Args) == 3 {
				call.Args = append([]ast.Expr{sel.X}, call.Args...)
				call.Fun = &ast.SelectorExpr{X: ast.NewIdent("verifsimhook"), Sel: ast.NewIdent("ListenConfigListen")}
				n++
			}
			return true
		})
		if n == 0 {
			continue
		}
		addImport(f, "verifsimhook", hookPath)
		var buf bytes.Buffer
		if err := format.Node(&buf, fset, f); err != nil {
			return total, err
		}
		if err := os.WriteFile(p, buf.Bytes(), 0o644); err != nil {
			return total, err
		}
		total += n
	}
	return total, nil
}

// callRenameDir turns calls pkg.Func(...) into pkg.NewFunc(...) (NewFunc lives in an export
// file of the same package and stands in for a function that talks to the operating system).
func callRenameDir(dir string, m map[string]string) (int, error) {
	ents, err := os.ReadDir(dir)
	if err != nil {
		return 0, err
	}
	total := 0
	for _, e := range ents {
		name := e.Name()
		if e.IsDir() || !strings.HasSuffix(name, ".go") || strings.HasSuffix(name, "_test.go") || strings.HasPrefix(name, "zz_verif") {
			continue
		}
		p := filepath.Join(dir, name)
		fset := token.NewFileSet()
		f, err := parser.ParseFile(fset, p, nil, parser.ParseComments)
		if err != nil {
			return total, err
		}
		n := 0
		ast.Inspect(f, func(nd ast.Node) bool {
			call, ok := nd.(*ast.CallExpr)
			if !ok {
				return true
			}
			sel, ok := call.Fun.(*ast.SelectorExpr)
			if !ok {
				return true
			}
			id, ok := sel.X.(*ast.Ident)
			if !ok {
				return true
			}
			if to, ok := m[id.Name+"."+sel.Sel.Name]; ok {
				sel.Sel = ast.NewIdent(to)
				n++
			}
			return true
		})
		if n == 0 {
			continue
		}
		var buf bytes.Buffer
		if err := format.Node(&buf, fset, f); err != nil {
			return total, err
		}
		if err := os.WriteFile(p, buf.Bytes(), 0o644); err != nil {
			return total, err
		}
		total += n
	}
	return total, nil
}

func addImport(f *ast.File, name, path string) {
	for _, imp := range f.Imports {
		if imp.Name != nil && imp.Name.Name == name {
			return
		}
	}
	imp := &ast.ImportSpec{Name: ast.NewIdent(name), Path: &ast.BasicLit{Kind: token.STRING, Value: strconv.Quote(path)}}
	for _, d := range f.Decls {
		if gd, ok := d.(*ast.GenDecl); ok && gd.Tok == token.IMPORT {
			gd.Specs = append(gd.Specs, imp)
			if !gd.Lparen.IsValid() {
				gd.Lparen = gd.Pos()
				gd.Rparen = gd.End()
			}
			return
		}
	}
	f.Decls = append([]ast.Decl{&ast.GenDecl{Tok: token.IMPORT, Specs: []ast.Spec{imp}}}, f.Decls...)
}

// genReexport writes a file re-exporting every exported object of std package pkg,
// except the names in skip (which the shim defines itself).
func genReexport(pkg, as, out string, skip []string) error {
	sk := map[string]bool{}
	for _, s := range skip {
		sk[strings.TrimSpace(s)] = true
	}
	p, err := importer.ForCompiler(token.NewFileSet(), "source", nil).Import(pkg)
	if err != nil {
		return err
	}
	sc := p.Scope()
	names := sc.Names()
	sort.Strings(names)
	var consts, vars, typs, funcs []string
	for _, n := range names {
		o := sc.Lookup(n)
		if !o.Exported() || sk[n] {
			continue
		}
		switch o := o.(type) {
		case *types.Const:
			consts = append(consts, fmt.Sprintf("\t%s = real.%s", n, n))
		case *types.Var:
			vars = append(vars, n)
		case *types.TypeName:
			tp := ""
			if nt, ok := o.Type().(*types.Named); ok && nt.TypeParams().Len() > 0 {
				continue // no generic types in os today
			}
			typs = append(typs, fmt.Sprintf("\t%s%s = real.%s", n, tp, n))
		case *types.Func:
			funcs = append(funcs, fmt.Sprintf("\t%s = real.%s", n, n))
		}
	}
	var b bytes.Buffer
	fmt.Fprintf(&b, "// Code generated by simprep from package %s; DO NOT EDIT.\n\npackage %s\n\nimport real %q\n\n", pkg, as, pkg)
	if len(consts) > 0 {
		fmt.Fprintf(&b, "const (\n%s\n)\n\n", strings.Join(consts, "\n"))
	}
	if len(typs) > 0 {
		fmt.Fprintf(&b, "type (\n%s\n)\n\n", strings.Join(typs, "\n"))
	}
	// Package-level variables of os (Args, Stdin, ErrNotExist, ...) are re-exported by
	// value; the code under test only reads them.
	if len(vars) > 0 {
		fmt.Fprintf(&b, "var (\n")
		for _, v := range vars {
			fmt.Fprintf(&b, "\t%s = real.%s\n", v, v)
		}
		fmt.Fprintf(&b, ")\n\n")
	}
	if len(funcs) > 0 {
		fmt.Fprintf(&b, "var (\n%s\n)\n", strings.Join(funcs, "\n"))
	}
	src, err := format.Source(b.Bytes())
	if err != nil {
		return fmt.Errorf("%v\n%s", err, b.String())
	}
	return os.WriteFile(out, src, 0o644)
}
