// Package simnet is the simulated byte transport and the simulator's own
// Content-Length frame codec (independent of lsp/jsonrpc2/stream.go).
package simnet

import (
	"bytes"
	"encoding/json"
	"errors"
	"fmt"
	"io"
	"strconv"
	"strings"
	"sync"

	"github.com/a-h/templ/zzverif/kernel"
)

type Frame struct {
	Body []byte
	JSON map[string]any
}

// SplitFrames parses as many complete frames as buf holds.
func SplitFrames(buf []byte) (frames []Frame, rest []byte, err error) {
	for {
		i := bytes.Index(buf, []byte("\r\n\r\n"))
		if i < 0 {
			return frames, buf, nil
		}
		n := -1
		for _, ln := range strings.Split(string(buf[:i]), "\r\n") {
			c := strings.IndexByte(ln, ':')
			if c < 0 {
				return frames, buf, fmt.Errorf("header line without colon: %q", ln)
			}
			if strings.EqualFold(strings.TrimSpace(ln[:c]), "Content-Length") {
				v, perr := strconv.Atoi(strings.TrimSpace(ln[c+1:]))
				if perr != nil || v < 0 {
					return frames, buf, fmt.Errorf("bad Content-Length %q", ln)
				}
				n = v
			}
		}
		if n < 0 {
			return frames, buf, fmt.Errorf("frame without Content-Length: %q", kernel.Short(string(buf[:i]), 80))
		}
		if len(buf) < i+4+n {
			return frames, buf, nil
		}
		body := buf[i+4 : i+4+n]
		var m map[string]any
		if jerr := json.Unmarshal(body, &m); jerr != nil {
			return frames, buf, fmt.Errorf("frame body of %d bytes is not one JSON object (%v): %q", n, jerr, kernel.Short(string(body), 120))
		}
		frames = append(frames, Frame{Body: body, JSON: m})
		buf = buf[i+4+n:]
	}
}

func EncodeFrame(v any) []byte {
	b, err := json.Marshal(v)
	if err != nil {
		panic(err)
	}
	return append([]byte(fmt.Sprintf("Content-Length: %d\r\n\r\n", len(b))), b...)
}

type Queue struct {
	Buf    []byte
	Closed bool
}

// IO is one end of a simulated byte pipe: every Read and Write parks.
type IO struct {
	K    *kernel.Kernel
	Name string
	In   *Queue
	Out  *Queue
	Mu   *sync.Mutex
}

var ErrBroken = errors.New("sim: transport closed")

func (c *IO) Write(p []byte) (int, error) {
	kind := "body"
	if bytes.HasPrefix(p, []byte("Content-Length")) {
		kind = "hdr"
	}
	c.K.Park("wr:"+c.Name, kind, kernel.Short(string(p), 40), nil)
	c.Mu.Lock()
	defer c.Mu.Unlock()
	if c.Out.Closed {
		return 0, ErrBroken
	}
	c.Out.Buf = append(c.Out.Buf, p...)
	return len(p), nil
}

func (c *IO) Read(p []byte) (int, error) {
	d := c.K.Park("rd:"+c.Name, "read", "", nil)
	c.Mu.Lock()
	defer c.Mu.Unlock()
	if d.Op == "eof" || (c.In.Closed && len(c.In.Buf) == 0) {
		return 0, io.EOF
	}
	n := d.N
	if n <= 0 || n > len(c.In.Buf) {
		n = len(c.In.Buf)
	}
	if n > len(p) {
		n = len(p)
	}
	copy(p, c.In.Buf[:n])
	c.In.Buf = c.In.Buf[n:]
	return n, nil
}

func (c *IO) Close() error {
	c.Mu.Lock()
	c.In.Closed = true
	c.Out.Closed = true
	c.Mu.Unlock()
	return nil
}

// Avail is the number of bytes waiting to be read by this end.
func (c *IO) Avail() int {
	c.Mu.Lock()
	defer c.Mu.Unlock()
	return len(c.In.Buf)
}

// Feed appends bytes for this end to read.
func (c *IO) Feed(b []byte) {
	c.Mu.Lock()
	c.In.Buf = append(c.In.Buf, b...)
	c.Mu.Unlock()
}

// Drain takes everything this end has written.
func (c *IO) Drain() []byte {
	c.Mu.Lock()
	defer c.Mu.Unlock()
	b := c.Out.Buf
	c.Out.Buf = nil
	return b
}
