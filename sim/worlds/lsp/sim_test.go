// Package lsp is the C17 world: an editor model talks LSP over a simulated byte
// transport to the real jsonrpc2 conn, the real protocol dispatch (production handler
// chain) and the real proxy.Server, whose target is a stub gopls.
package lsp

import (
	"context"
	"errors"
	"fmt"
	"io"
	"log/slog"
	"os"
	"path/filepath"
	"runtime"
	"strings"
	"sync"
	"testing"

	"github.com/a-h/templ/cmd/templ/lspcmd/proxy"
	"github.com/a-h/templ/generator"
	"github.com/a-h/templ/lsp/jsonrpc2"
	lspp "github.com/a-h/templ/lsp/protocol"
	parser "github.com/a-h/templ/parser/v2"
	"github.com/a-h/templ/zzverif/kernel"
	"github.com/a-h/templ/zzverif/shim/simhook"
	"github.com/a-h/templ/zzverif/shim/simos"
	"github.com/a-h/templ/zzverif/shim/simsync"
	"github.com/a-h/templ/zzverif/simnet"
)

// stubGopls records what the proxy forwards. Every other method of lsp.Server is
// absent (nil embedded interface): the world never sends requests that reach them.
type stubGopls struct {
	lspp.Server
	k       *kernel.Kernel
	mu      sync.Mutex
	texts   map[string]string
	stale   map[string]bool // Go files whose last change gopls refused
	changes int
	log     []string
}

func (g *stubGopls) DidOpen(ctx context.Context, p *lspp.DidOpenTextDocumentParams) error {
	g.k.Park("gopls", "didOpen", relURI(string(p.TextDocument.URI)), nil)
	g.mu.Lock()
	g.texts[string(p.TextDocument.URI)] = p.TextDocument.Text
	g.mu.Unlock()
	return nil
}

func (g *stubGopls) DidChange(ctx context.Context, p *lspp.DidChangeTextDocumentParams) error {
	d := g.k.Park("gopls", "didChange", relURI(string(p.TextDocument.URI)), nil)
	if d.Op == "fail" {
		// the connection to gopls hiccups: this one notification is refused (gopls is then behind
		// until the next change it accepts, which carries the whole text)
		g.mu.Lock()
		if g.stale == nil {
			g.stale = map[string]bool{}
		}
		g.stale[string(p.TextDocument.URI)] = true
		g.mu.Unlock()
		return errGopls
	}
	g.mu.Lock()
	defer g.mu.Unlock()
	delete(g.stale, string(p.TextDocument.URI))
	g.changes++
	for _, c := range p.ContentChanges {
		if c.Range != nil {
			g.log = append(g.log, "incremental change forwarded to gopls")
			continue
		}
		g.texts[string(p.TextDocument.URI)] = c.Text
	}
	return nil
}

var errGopls = errors.New("sim: gopls refused the notification")

// uriBase is the workspace prefix of the run in progress; it may contain a random directory
// name, which must stay out of the event log.
var uriBase string

func relURI(u string) string { return strings.TrimPrefix(u, uriBase) }

func (g *stubGopls) Initialize(ctx context.Context, p *lspp.InitializeParams) (*lspp.InitializeResult, error) {
	return &lspp.InitializeResult{ServerInfo: &lspp.ServerInfo{Name: "stub"}}, nil
}

func (g *stubGopls) Initialized(ctx context.Context, p *lspp.InitializedParams) error { return nil }

func (g *stubGopls) DidChangeWatchedFiles(ctx context.Context, p *lspp.DidChangeWatchedFilesParams) error {
	g.k.Park("gopls", "didChangeWatchedFiles", "", nil)
	return nil
}

// Symbols is the one request the editor model sends between edits (and cancels).
func (g *stubGopls) Symbols(ctx context.Context, p *lspp.WorkspaceSymbolParams) ([]lspp.SymbolInformation, error) {
	g.k.Park("gopls", "symbols", p.Query, nil)
	return nil, ctx.Err()
}

func (g *stubGopls) DidClose(ctx context.Context, p *lspp.DidCloseTextDocumentParams) error {
	g.k.Park("gopls", "didClose", relURI(string(p.TextDocument.URI)), nil)
	g.mu.Lock()
	delete(g.texts, string(p.TextDocument.URI))
	g.mu.Unlock()
	return nil
}

// ---- reference model: a flat string and byte splices -----------------------------------

func offsetOf(doc string, line, char int) int {
	lines := strings.Split(doc, "\n")
	if line >= len(lines) {
		return len(doc)
	}
	off := 0
	for i := 0; i < line; i++ {
		off += len(lines[i]) + 1
	}
	if char > len(lines[line]) {
		char = len(lines[line])
	}
	return off + char
}

type change struct {
	HasRange       bool
	SL, SC, EL, EC int
	Text           string
}

func (c change) String() string {
	if !c.HasRange {
		return fmt.Sprintf("full(%q)", kernel.Short(c.Text, 40))
	}
	return fmt.Sprintf("%d:%d-%d:%d=%q", c.SL, c.SC, c.EL, c.EC, kernel.Short(c.Text, 40))
}

func applyRef(doc string, c change) string {
	if !c.HasRange {
		return c.Text
	}
	s, e := offsetOf(doc, c.SL, c.SC), offsetOf(doc, c.EL, c.EC)
	if e < s {
		e = s
	}
	return doc[:s] + c.Text + doc[e:]
}

func (c change) wire() map[string]any {
	m := map[string]any{"text": c.Text}
	if c.HasRange {
		m["range"] = map[string]any{"start": map[string]any{"line": c.SL, "character": c.SC}, "end": map[string]any{"line": c.EL, "character": c.EC}}
	}
	return m
}

var validTempls = []string{
	"package p\n\ntempl T() {\n\t<div>a</div>\n}\n",
	"package p\n\ntempl T(s string) {\n\t<p>{ s }</p>\n}\n",
	"package p\n",
	"package p\n\ntempl A() {\n\t<a href=\"/x\">b</a>\n}\n\ntempl B() {\n\t@A()\n}\n",
	// documents the formatter changes: it adds lines, removes lines, re-indents
	"package p\n\ntempl T() {\n<div>a</div><div>b</div><p>c</p>\n}\n",
	"package p\n\n\n\n\ntempl T() {\n\n\n\t<div>a</div>\n\n\n}\n\n\n",
	"package p\n\ntempl T() {\n        <div>\n<span>x</span>\n   </div>\n}",
	"package p\n\ntempl T(a bool) {\n\tif a { <b>y</b> } else { <i>n</i> }\n}\n",
}

// brokenTempls are buffers as an editor restores them in the middle of an edit: the parser
// rejects them.
var brokenTempls = []string{
	"package p\n\ntempl T() {\n\t<div>a\n}\n",
	"package p\n\ntempl T() {\n\t<div\n",
	"package p\n\ntempl T(s string) {\n\t<p>{ s </p>\n}\n",
	"package p\n\ntempl T() {\n\t@\n}\n",
}

func genDoc(t *kernel.Tape) string {
	if t.Chance(2, 5, "valid-templ") {
		return validTempls[t.Choose(len(validTempls), "which")]
	}
	if t.Chance(1, 4, "broken-templ") {
		return brokenTempls[t.Choose(len(brokenTempls), "which-broken")]
	}
	nl := t.Range(0, 6, "nlines")
	var lines []string
	for i := 0; i <= nl; i++ {
		n := t.Range(0, 4, "linelen")
		var sb strings.Builder
		for j := 0; j < n; j++ {
			sb.WriteByte("ab "[t.Choose(3, "ch")])
		}
		lines = append(lines, sb.String())
	}
	return strings.Join(lines, "\n")
}

func genText(t *kernel.Tape) string {
	switch t.Choose(8, "textkind") {
	case 0:
		return ""
	case 1:
		return "X"
	case 2:
		return "\n"
	case 3:
		return "xy\nz"
	case 4:
		return "\n\n"
	case 5:
		return "q\n"
	case 6:
		return "\nr"
	default:
		return "long text ab"
	}
}

func genChange(t *kernel.Tape, doc string) change {
	if t.Chance(1, 8, "full-replace") {
		return change{Text: genDoc(t)}
	}
	lines := strings.Split(doc, "\n")
	pos := func() (int, int) {
		// mostly inside the document, sometimes on or beyond its edges
		l := t.Choose(len(lines)+2, "line")
		ll := 0
		if l < len(lines) {
			ll = len(lines[l])
		}
		c := t.Choose(ll+3, "char")
		switch t.Choose(10, "edge") {
		case 0:
			l, c = 0, 0
		case 1:
			l, c = len(lines)-1, len(lines[len(lines)-1])
		case 2:
			c = ll
		}
		return l, c
	}
	sl, sc := pos()
	el, ec := pos()
	if t.Chance(1, 3, "empty-range") {
		el, ec = sl, sc
	}
	if el < sl || (el == sl && ec < sc) {
		sl, sc, el, ec = el, ec, sl, sc
	}
	return change{HasRange: true, SL: sl, SC: sc, EL: el, EC: ec, Text: genText(t)}
}

func expectedGo(uri, doc string) (string, bool) {
	tf, err := parser.ParseString(doc)
	if err != nil {
		return "", false
	}
	tf.Filepath = uri
	if _, err := parser.Diagnose(tf); err != nil {
		return "", false
	}
	var sb strings.Builder
	if _, err := generator.Generate(tf, &sb); err != nil {
		return "", false
	}
	return sb.String(), true
}

type docState struct {
	uri, goURI string
	ref        string
	open       bool
	version    int
	lastGood   string
	haveGood   bool
}

func simWorld(rc *kernel.RunCtx) {
	// One release can make two goroutines runnable at once here: a handler that has just
	// replied (AsyncHandler closes the next handler's gate *before* it writes its response)
	// and the handler it unblocked. Which of them reaches the connection's write lock first is
	// the Go scheduler's choice, not a seam. With a single P that choice is fixed (the running
	// goroutine continues until it blocks), so runs stay a function of their tape; the other
	// order is not explored (recorded under assumptions).
	runtime.GOMAXPROCS(1)
	t := rc.T
	k := kernel.New(t, kernel.M2, rc.Param("max_steps", 6000))
	kernel.Active = k
	simsync.NewEpoch()
	var sample map[string]any
	esc := kernel.Bubble(rc.TB, func() { sample = run(rc, k) })
	if esc != "" && !rc.Failed() {
		if strings.Contains(esc, "deadlock") || strings.Contains(esc, "blocked") {
			rc.Fail("C17/goroutine-leak", "goroutines left blocked after the connection was closed: %s", kernel.FirstLines(esc, 6))
		} else {
			rc.Fail("C17/panic", "%s", kernel.FirstLines(esc, 10))
		}
	}
	rc.Finish(k)
	rc.Res.Nontriv = k.Stats["changes_applied"] >= 1
	rc.Res.Key = rc.Res.LogHash
	if rc.WantSample || rc.Failed() {
		rc.Res.Sample = sample
	}
}

func run(rc *kernel.RunCtx, k *kernel.Kernel) map[string]any {
	t := rc.T
	log := slog.New(slog.NewTextHandler(io.Discard, nil))
	var iomu sync.Mutex
	ioS := &simnet.IO{K: k, Name: "S", In: &simnet.Queue{}, Out: &simnet.Queue{}, Mu: &iomu}
	stub := &stubGopls{k: k, texts: map[string]string{}}
	// In a third of the runs the documents live in a workspace on disk: the server reads them when
	// the editor initialises it (every read is a seam), the editor's buffers differ from what is
	// on disk (unsaved edits), files are saved, touched by other tools, and reported as changed.
	onDisk := t.Chance(1, 3, "workspace-on-disk")
	wsRoot := ""
	if onDisk {
		var err error
		// (a name of fixed length: the path appears in messages, whose sizes are part of the event log)
		wsRoot = filepath.Join(os.Getenv("VSIM_TMP"), fmt.Sprintf("lspws-%08d", os.Getpid()%100000000))
		os.RemoveAll(wsRoot)
		if err = os.MkdirAll(wsRoot, 0o755); err != nil {
			rc.Fail("harness", "%v", err)
			return nil
		}
		defer os.RemoveAll(wsRoot)
		os.MkdirAll(filepath.Join(wsRoot, "sub"), 0o755)
		for _, rel := range []string{"a.templ", "sub/b.templ", "c.templ"} {
			os.WriteFile(filepath.Join(wsRoot, rel), []byte(genDoc(t)), 0o644)
		}
		simos.SetHook(&simos.HookT{Before: func(op, path string) simos.Fault {
			if op == "ReadFile" && strings.HasPrefix(path, wsRoot) && k.Quiescing.Load() {
				k.Park("disk:"+strings.TrimPrefix(path, wsRoot), op, "", nil)
			}
			return simos.Fault{}
		}})
		defer simos.SetHook(nil)
		k.Count("probe_workspace_on_disk", 1)
	}
	srv := proxy.NewServer(log, stub, proxy.NewSourceMapCache(), proxy.NewDiagnosticCache(), !onDisk)
	_, conn, _ := lspp.NewServer(context.Background(), srv, jsonrpc2.NewStream(ioS), log)

	// lock hand-overs (document store, source map cache, conn) as seams for a random subset of runs
	yieldP := []int{0, 0, 1, 2, 4}[t.Choose(5, "unlock-yield-rate")]
	nyield := 0
	simsync.SetAfterUnlock(func() {
		if yieldP == 0 || !k.Quiescing.Load() || k.Capped() {
			return
		}
		if t.Chance(yieldP, 8, "yield-after-unlock") {
			nyield++
			k.Count("probe_parked_right_after_unlock", 1)
			k.Park(fmt.Sprintf("unlock#%d", nyield), "yield", "", nil)
		}
	})
	defer simsync.SetAfterUnlock(nil)
	// a goroutine that has just closed a channel (AsyncHandler opening the gate of the next
	// handler, a conn announcing it is done) is held there: the goroutine it woke runs alone
	// until it blocks, then the scheduler decides when this one continues
	nclose := 0
	simhook.SetYield(func(site string) {
		if !k.Quiescing.Load() {
			return
		}
		nclose++
		k.Park(fmt.Sprintf("after-close#%d", nclose), "yield", site, nil)
	})
	defer simhook.SetYield(nil)
	// the editor has one or two documents d.open; d is the one the current action is about
	// URIs as editors spell them: plain, or with percent-escapes (a drive colon, a space, a
	// non-ASCII letter)
	base := []string{"file:///w", "file:///w", "file:///c%3A/my%20code", "file:///home/z%C3%BC/w"}[t.Choose(4, "uri-shape")]
	if onDisk {
		base = "file://" + wsRoot
	}
	uriBase = base
	docs := []*docState{{uri: base + "/a.templ", goURI: base + "/a_templ.go"}}
	if t.Bool("two-documents") {
		docs = append(docs, &docState{uri: base + "/sub/b.templ", goURI: base + "/sub/b_templ.go"})
	}
	d := docs[0]
	var history []string
	var fromServer []byte
	diagnostics := 0
	nreq := 0
	var outstanding []string
	// formatting requests whose answer the editor is waiting for: document and its version then
	type fmtReq struct {
		d       *docState
		version int
	}
	pendingFormat := map[string]fmtReq{}

	send := func(method string, params any) {
		ioS.Feed(simnet.EncodeFrame(map[string]any{"jsonrpc": "2.0", "method": method, "params": params}))
	}
	noteGo := func() {
		if g, ok := expectedGo(d.uri, d.ref); ok {
			d.lastGood, d.haveGood = g, true
		}
	}
	doOpen := func() {
		d.ref = genDoc(t)
		if t.Bool("versions-restart-on-open") {
			d.version = 0 // editors number the versions of a (re)opened document from 1 again
		}
		d.version++
		d.open = true
		d.haveGood = false
		history = append(history, fmt.Sprintf("open %s %q", d.uri, kernel.Short(d.ref, 60)))
		k.Action("editor: didOpen " + fmt.Sprint(len(d.ref)))
		send("textDocument/didOpen", map[string]any{"textDocument": map[string]any{"uri": d.uri, "languageId": "templ", "version": d.version, "text": d.ref}})
		noteGo()
	}
	doChange := func() {
		n := 1
		if t.Chance(1, 4, "multi-change") {
			n = t.Range(2, 4, "nchanges")
		}
		var cs []any
		var desc []string
		for i := 0; i < n; i++ {
			c := genChange(t, d.ref)
			d.ref = applyRef(d.ref, c)
			cs = append(cs, c.wire())
			desc = append(desc, c.String())
			k.Count("changes_applied", 1)
			if !c.HasRange {
				k.Count("changes_full_replace", 1)
			} else if c.SL == 0 && c.SC == 0 {
				k.Count("probe_change_starting_at_origin", 1)
			}
		}
		d.version++
		history = append(history, "change "+d.uri[len(d.uri)-7:]+" "+strings.Join(desc, "; "))
		k.Action("editor: didChange " + strings.Join(desc, "; "))
		send("textDocument/didChange", map[string]any{"textDocument": map[string]any{"uri": d.uri, "version": d.version}, "contentChanges": cs})
		noteGo()
	}
	doClose := func() {
		d.open = false
		d.haveGood = false
		history = append(history, "close "+d.uri)
		k.Action("editor: didClose")
		send("textDocument/didClose", map[string]any{"textDocument": map[string]any{"uri": d.uri}})
	}
	// The editor applies the edits of a formatting answer if the document has not changed since it
	// asked, and tells the server about the change it made, like about any other change.
	applyFormatting := func(fd *docState, version int, result any) {
		edits, _ := result.([]any)
		if !fd.open || fd.version != version || len(edits) == 0 {
			k.Count("formatting_answers_not_applied", 1)
			return
		}
		var cs []any
		var desc []string
		for _, e := range edits {
			m, _ := e.(map[string]any)
			r, _ := m["range"].(map[string]any)
			st, _ := r["start"].(map[string]any)
			en, _ := r["end"].(map[string]any)
			num := func(x any) int { f, _ := x.(float64); return int(f) }
			c := change{HasRange: true, SL: num(st["line"]), SC: num(st["character"]), EL: num(en["line"]), EC: num(en["character"])}
			c.Text, _ = m["newText"].(string)
			before := fd.ref
			fd.ref = applyRef(fd.ref, c)
			switch t.Choose(3, "formatting-echo-shape") {
			case 0: // the range as the server gave it
			case 1: // the range as the editor validated it against its document (clamped to its end)
				lines := strings.Split(before, "\n")
				if c.EL >= len(lines) {
					c.EL, c.EC = len(lines)-1, len(lines[len(lines)-1])
				}
			case 2: // an editor that syncs whole documents
				c = change{Text: fd.ref}
			}
			cs = append(cs, c.wire())
			desc = append(desc, c.String())
		}
		fd.version++
		history = append(history, "formatting applied "+fd.uri[len(fd.uri)-7:]+" "+strings.Join(desc, "; "))
		k.Action("editor: applies formatting, didChange " + strings.Join(desc, "; "))
		send("textDocument/didChange", map[string]any{"textDocument": map[string]any{"uri": fd.uri, "version": fd.version}, "contentChanges": cs})
		k.Count("formatting_answers_applied", 1)
		save := d
		d = fd
		noteGo()
		d = save
	}
	doFormat := func() {
		nreq++
		id := fmt.Sprintf("f%d", nreq)
		outstanding = append(outstanding, id)
		pendingFormat[id] = fmtReq{d, d.version}
		history = append(history, "formatting request "+id+" "+d.uri[len(d.uri)-7:])
		k.Action("editor: textDocument/formatting " + id)
		ioS.Feed(simnet.EncodeFrame(map[string]any{"jsonrpc": "2.0", "id": id, "method": "textDocument/formatting", "params": map[string]any{"textDocument": map[string]any{"uri": d.uri}, "options": map[string]any{"tabSize": 4, "insertSpaces": false}}}))
		k.Count("formatting_requests_sent", 1)
	}
	collect := func() {
		b := ioS.Drain()
		if len(b) == 0 {
			return
		}
		fromServer = append(fromServer, b...)
		frames, rest, err := simnet.SplitFrames(fromServer)
		if err != nil {
			rc.Fail("C17/server-wrote-corrupt-frame", "%v", err)
			return
		}
		fromServer = rest
		for _, f := range frames {
			if f.JSON["method"] == "textDocument/publishDiagnostics" {
				diagnostics++
			}
			if id, ok := f.JSON["id"].(string); ok && f.JSON["method"] == nil {
				if fr, isFmt := pendingFormat[id]; isFmt {
					delete(pendingFormat, id)
					applyFormatting(fr.d, fr.version, f.JSON["result"])
				}
				for i, o := range outstanding {
					if o == id {
						outstanding = append(outstanding[:i], outstanding[i+1:]...)
						break
					}
				}
				k.Count("responses_received", 1)
			}
		}
	}
	doRequest := func() {
		nreq++
		id := fmt.Sprintf("r%d", nreq)
		outstanding = append(outstanding, id)
		history = append(history, "request "+id)
		k.Action("editor: workspace/symbol " + id)
		ioS.Feed(simnet.EncodeFrame(map[string]any{"jsonrpc": "2.0", "id": id, "method": "workspace/symbol", "params": map[string]any{"query": id}}))
		k.Count("requests_sent", 1)
	}
	doCancel := func() {
		i := t.Choose(len(outstanding), "cancel-which")
		id := outstanding[i]
		outstanding = append(outstanding[:i], outstanding[i+1:]...)
		delete(pendingFormat, id) // the editor ignores a late answer to a request it cancelled
		history = append(history, "cancel "+id)
		k.Action("editor: $/cancelRequest " + id)
		send("$/cancelRequest", map[string]any{"id": id})
		k.Count("fault_request_cancelled", 1)
	}
	quiet := func() bool {
		ps := k.ParkedList()
		return len(ps) == 1 && ps[0].Name == "rd:S" && ioS.Avail() == 0
	}
	checks := 0
	var checkDoc func(d *docState)
	check := func() {
		collect()
		if rc.Failed() {
			return
		}
		if ioS.Avail() > 0 {
			return // an answer just made the editor send something: the server has not seen it yet
		}
		checks++
		for _, d := range docs {
			checkDoc(d)
			if rc.Failed() {
				return
			}
		}
	}
	checkDoc = func(d *docState) {
		doc, ok := srv.TemplSource.Get(d.uri)
		if !d.open {
			if ok && !onDisk { // with a workspace on disk the server may hold files nobody has open
				rc.Fail("C17/closed-document-still-cached", "document closed by the editor is still held by the server")
			}
			return
		}
		if !ok {
			rc.Fail("C17/document-missing", "server has no copy of the d.open document; history: %v", history)
			return
		}
		if got := doc.String(); got != d.ref {
			rc.Fail("C17/document-diverged", "server copy %q, editor %q\n history: %s", kernel.Short(got, 300), kernel.Short(d.ref, 300), strings.Join(history, "\n   "))
			return
		}
		k.Count("document_comparisons", 1)
		if d.haveGood {
			stub.mu.Lock()
			got, have := stub.texts[d.goURI]
			behind := stub.stale[d.goURI]
			stub.mu.Unlock()
			if behind {
				// gopls refused the last change: it is behind through no fault of the server
			} else if !have || got != d.lastGood {
				rc.Fail("C17/go-code-stale", "gopls holds Go text that is not the generation of the latest parseable document (have=%v, %d vs %d bytes)\n history: %s", have, len(got), len(d.lastGood), strings.Join(history, "\n   "))
				return
			}
			k.Count("go_text_comparisons", 1)
		}
	}

	k.Quiesce()
	if onDisk {
		// initialize, wait for the answer (the server reads the workspace meanwhile), initialized
		ioS.Feed(simnet.EncodeFrame(map[string]any{"jsonrpc": "2.0", "id": "init", "method": "initialize", "params": map[string]any{
			"processId": 1, "rootUri": base, "capabilities": map[string]any{}, "workspaceFolders": []any{map[string]any{"uri": base, "name": "w"}}}}))
		outstanding = append(outstanding, "init")
		for i := 0; i < 5000 && !rc.Failed(); i++ {
			collect()
			if len(outstanding) == 0 {
				break
			}
			ps := k.ParkedList()
			var p *kernel.Parked
			for _, x := range ps {
				if x.Name == "rd:S" && ioS.Avail() == 0 {
					continue
				}
				p = x
				break
			}
			if p == nil {
				break
			}
			if p.Name == "rd:S" {
				k.Run(p, kernel.Decision{N: ioS.Avail()})
			} else {
				k.Run(p, kernel.Decision{})
			}
		}
		if len(outstanding) != 0 && !rc.Failed() {
			rc.Fail("C17/server-stuck", "initialize was never answered")
		}
		send("initialized", map[string]any{})
		history = append(history, "initialize + initialized (workspace "+base+")")
	}
	doOpen()
	if len(docs) > 1 {
		k.Count("probe_two_documents", 1)
	}
	maxActions := t.Range(5, rc.Param("max_actions", 120), "max-actions")
	nEdits := 0
	maxEdits := t.Range(1, rc.Param("max_edits", 40), "max-edits")
	wSend, wRelease := t.Range(1, 4, "w-send"), t.Range(2, 8, "w-release")
	for a := 0; a < maxActions && !k.Capped() && !rc.Failed(); a++ {
		collect()
		if quiet() {
			check()
			if rc.Failed() {
				break
			}
		}
		type action struct {
			w  int
			fn func()
		}
		var acts []action
		for _, p := range k.ParkedList() {
			p := p
			if p.Name == "rd:S" {
				avail := ioS.Avail()
				if avail == 0 {
					continue
				}
				acts = append(acts, action{wRelease, func() {
					n := avail
					switch t.Choose(4, "rd-chunk") {
					case 0:
						n = 1
					case 1:
						n = 1 + t.Choose(avail, "rd-n")
					}
					k.Run(p, kernel.Decision{N: n})
				}})
				continue
			}
			acts = append(acts, action{wRelease, func() {
				if p.Name == "gopls" && p.Kind == "didChange" && t.Chance(1, 12, "gopls-refuses") {
					k.Count("fault_gopls_refused_a_change", 1)
					history = append(history, "gopls refuses a change")
					k.Run(p, kernel.Decision{Op: "fail"})
					return
				}
				k.Run(p, kernel.Decision{})
			}})
		}
		if nEdits < maxEdits {
			acts = append(acts, action{wSend, func() {
				nEdits++
				d = docs[t.Choose(len(docs), "which-document")]
				switch {
				case !d.open:
					doOpen()
				case t.Chance(1, 25, "close"):
					doClose()
				case t.Chance(1, 6, "request"):
					doRequest()
				case t.Chance(1, 8, "format"):
					doFormat()
				case onDisk && t.Chance(1, 5, "disk-event"):
					// the file on disk changes (the editor saves its buffer, or another tool rewrites the
					// file under it) and/or the editor reports the file as changed - possibly late,
					// possibly for a file whose buffer has unsaved edits
					path := strings.TrimPrefix(d.uri, "file://")
					switch t.Choose(3, "disk-event-kind") {
					case 0:
						os.WriteFile(path, []byte(d.ref), 0o644)
						history = append(history, "save "+d.uri[len(d.uri)-7:])
					case 1:
						os.WriteFile(path, []byte(genDoc(t)), 0o644)
						history = append(history, "another tool rewrites "+d.uri[len(d.uri)-7:]+" on disk")
					}
					history = append(history, "didChangeWatchedFiles "+d.uri[len(d.uri)-7:])
					k.Action("editor: workspace/didChangeWatchedFiles")
					send("workspace/didChangeWatchedFiles", map[string]any{"changes": []any{map[string]any{"uri": d.uri, "type": 2}}})
					k.Count("fault_watched_file_event", 1)
				case len(outstanding) > 0 && t.Chance(1, 3, "cancel"):
					doCancel()
				default:
					doChange()
				}
			}})
		}
		if len(acts) == 0 {
			break
		}
		ws := make([]int, len(acts))
		for i, x := range acts {
			ws[i] = x.w
		}
		acts[t.Pick(ws, "action")].fn()
	}
	// drain: no more edits; let the server finish (an answer that arrives may make the editor
	// send one more change: then drain again)
	for round := 0; round < 8 && !rc.Failed(); round++ {
		collect()
		if quiet() {
			break
		}
		for i := 0; i < 20000 && !rc.Failed() && !quiet(); i++ {
			collect()
			ps := k.ParkedList()
			var p *kernel.Parked
			for _, x := range ps {
				if x.Name == "rd:S" && ioS.Avail() == 0 {
					continue
				}
				p = x
				break
			}
			if p == nil {
				break
			}
			if p.Name == "rd:S" {
				k.Run(p, kernel.Decision{N: ioS.Avail()})
			} else {
				k.Run(p, kernel.Decision{})
			}
		}
	}
	if !rc.Failed() {
		if !quiet() {
			var names []string
			for _, p := range k.ParkedList() {
				names = append(names, p.String())
			}
			rc.Fail("C17/server-stuck", "the server did not finish processing the notifications: parked %v, %d bytes unread", names, ioS.Avail())
		} else {
			check()
		}
	}
	conn.Close()
	if p := k.Find("rd:S"); p != nil {
		k.Run(p, kernel.Decision{Op: "eof"})
	}
	k.Quiesce()
	k.Count("quiescent_checks", int64(checks))
	k.Count("diagnostics_published", int64(diagnostics))
	return map[string]any{"history": history, "documents": len(docs), "final_document": kernel.Short(docs[0].ref, 200), "checks": checks, "steps": k.Steps}
}

func TestSim(t *testing.T) { kernel.Main(t, simWorld) }
