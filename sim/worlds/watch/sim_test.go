// Package watch is the C16 world: the real watch-mode event handler and the real
// development-mode runtime on both sides of the text file, a fake clock, simulated
// mtimes, and an editor / rebuild / restart model. The variant families (registry in
// zz_registry_test.go) are generated and compiled at check time.
package watch

import (
	"bytes"
	"context"
	"errors"
	"fmt"
	"io"
	"log/slog"
	"os"
	"path/filepath"
	"regexp"
	"strings"
	"sync"
	"testing"
	"time"

	"github.com/a-h/templ"
	"github.com/a-h/templ/cmd/templ/generatecmd"
	"github.com/a-h/templ/cmd/templ/generatecmd/watcher"
	templruntime "github.com/a-h/templ/runtime"
	"github.com/a-h/templ/zzverif/kernel"
	"github.com/a-h/templ/zzverif/shim/simos"
	"github.com/a-h/templ/zzverif/shim/simsync"
	"github.com/fsnotify/fsnotify"
)

type variant struct {
	Dir    string
	Op     string
	Source string
	Comp   func(x string, y string, on bool) templ.Component
}

type family struct {
	Name     string
	Variants []variant
}

type argset struct {
	X, Y string
	On   bool
}

var argsets = []argset{
	{"plain", "other", true},
	{"<b>&\"'</b>", "a\\b", false},
	{"color: red; background: url(javascript:alert(1))", "x y", true},
	{"</script><script>alert(1)</script>", "ü 日本", false},
	{"javascript:alert(1)", "line\nbreak", true},
	{"", "", false},
}

func render(c func(string, string, bool) templ.Component, a argset, dev bool) (string, error) {
	templruntime.SetDevelopmentMode(dev)
	defer templruntime.SetDevelopmentMode(false)
	var b bytes.Buffer
	err := c(a.X, a.Y, a.On).Render(context.Background(), &b)
	return b.String(), err
}

// settle is how long after the text file was written the running program is given before its
// output must be that of a fresh build. The statement sets no time bound; the implementation
// caches literals for 100 ms. The oracle does not mirror that constant: anything rendered sooner
// than settle is only required to be *some* version the text file has held since the build.
const settle = 2 * time.Second

type world struct {
	rc  *kernel.RunCtx
	k   *kernel.Kernel
	t   *kernel.Tape
	fam family
	h   *generatecmd.FSEventHandler
	// model
	c          int       // compiled variant
	fileVar    int       // variant whose text the source file holds (-1: unparseable garbage)
	processed  int       // variant of the text file the handler last wrote
	tWritten   time.Time // fake time of that write
	graceUntil time.Time // text files came back just before: render errors are not judged until then
	// a save that is handled while the running program is in the middle of loading a text file:
	// at the renderMid-th disk call of the render in progress the file is saved as renderMidVar
	// and the handler deals with it there and then
	rendering      bool
	renderMid      int
	renderMidVar   int
	rosCalls       int
	needRebuild    bool
	savedMidRender bool
	// failNextWrite makes the handler's next write of the generated Go file fail; writeFailed
	// says that it did
	failNextWrite, writeFailed bool
	// failNextText makes the handler's next write of the development-mode text file fail (disk full:
	// the file keeps what it held)
	failNextText bool
	held         []int // variants the text file has held since c was built
	lastEdit     time.Time
	pending      bool // the file was edited after the handler last looked
	trace        []string
	// the simulated source file: it lives at the compiled variant's compile-time path and
	// exists only in this run's model (simos overlay), so parallel worker processes do not collide
	filePath    string
	fileContent []byte
	fileMTime   time.Time
	// through the real watcher loop (coalescing of raw file system events)
	// a save that lands while the handler is in the middle of an event
	midAt    int // the handler's k-th file system call (-1: none)
	midVar   int
	osCalls  int
	midSaved bool
	readVar  int // the variant the handler actually read during the current event
	useLoop  bool
	raw      *fsnotify.Watcher
	qmu      sync.Mutex
	queue    []time.Time // arrival times of coalesced events not yet handled
	cancel   context.CancelFunc
	roots    []string
}

var watchPattern = regexp.MustCompile(`(.+\.go$)|(.+\.templ$)`)

func (w *world) startLoop() {
	ctx, cancel := context.WithCancel(context.Background())
	w.cancel = cancel
	w.raw = &fsnotify.Watcher{Events: make(chan fsnotify.Event), Errors: make(chan error)}
	out := make(chan fsnotify.Event)
	rw := watcher.NewRecursiveWatcher(ctx, w.raw, watchPattern, out, make(chan error))
	go rw.Loop()
	go func() {
		for {
			select {
			case <-ctx.Done():
				return
			case <-out:
				w.qmu.Lock()
				w.queue = append(w.queue, time.Now())
				w.qmu.Unlock()
			}
		}
	}()
}

func (w *world) queued() int {
	w.qmu.Lock()
	defer w.qmu.Unlock()
	return len(w.queue)
}

func (w *world) path(v int) string { return filepath.Join(w.fam.Variants[v].Dir, "t.templ") }

func (w *world) note(format string, a ...any) {
	s := fmt.Sprintf(format, a...)
	w.k.Action(s)
	if len(w.trace) < 100 {
		w.trace = append(w.trace, fmt.Sprintf("t+%v %s", time.Since(epoch0).Round(time.Millisecond), s))
	}
}

var epoch0 time.Time

var errDiskFull = errors.New("sim: no space left on device")

// coldCache is what a restarted program sees: an empty literal cache. The cache is keyed by the
// text files' paths, so the files move to a fresh root directory (no access to its internals).
func (w *world) coldCache() {
	old := os.Getenv("TEMPL_DEV_MODE_ROOT")
	root, err := os.MkdirTemp(os.Getenv("VSIM_TMP"), "devroot-")
	if err != nil {
		w.rc.Fail("harness", "%v", err)
		return
	}
	ents, _ := os.ReadDir(old)
	for _, e := range ents {
		b, err := os.ReadFile(filepath.Join(old, e.Name()))
		if err != nil {
			continue
		}
		os.WriteFile(filepath.Join(root, e.Name()), b, 0o644)
		if fi, err := e.Info(); err == nil {
			os.Chtimes(filepath.Join(root, e.Name()), fi.ModTime(), fi.ModTime())
		}
	}
	os.Setenv("TEMPL_DEV_MODE_ROOT", root)
	w.roots = append(w.roots, root)
}

// stampTextFiles gives every file in the development-mode root that was written during the last
// handler call a modification time from the fake clock, however the handler wrote it (WriteFile
// is stamped by the disk shim already; temp-file-and-rename or Create+Write are not).
func (w *world) stampTextFiles() {
	root := os.Getenv("TEMPL_DEV_MODE_ROOT")
	ents, _ := os.ReadDir(root)
	now := time.Now()
	for _, e := range ents {
		fi, err := e.Info()
		if err != nil || e.IsDir() {
			continue
		}
		if fi.ModTime().Year() > 2010 { // the fake clock lives in the year 2000
			os.Chtimes(filepath.Join(root, e.Name()), now, now)
		}
	}
}

func (w *world) newHandler() {
	log := slog.New(slog.NewTextHandler(io.Discard, nil))
	root := filepath.Dir(filepath.Dir(w.fam.Variants[0].Dir))
	w.h = generatecmd.NewFSEventHandler(log, root, true, nil, false, true, func(string, []byte) error {
		if w.failNextWrite {
			// disk fault: the generated Go file cannot be written this time
			w.failNextWrite, w.writeFailed = false, true
			return errDiskFull
		}
		return nil
	}, false)
}

// tick makes sure fake time has moved since the last write (two saves never share an mtime).
func (w *world) tick() {
	time.Sleep(time.Millisecond)
	if w.useLoop {
		w.k.Quiesce() // a coalescing timer may have fired during this millisecond
	}
}

func (w *world) writeSource(v int, content string) {
	w.tick()
	now := time.Now()
	w.filePath, w.fileContent, w.fileMTime = w.path(w.c), []byte(content), now
	w.lastEdit = now
	w.fileVar = v
	w.pending = true
	if w.useLoop {
		// an editor's save shows up as one to three raw Write events
		n := w.t.Range(1, 3, "raw-events")
		for i := 0; i < n; i++ {
			w.raw.Events <- fsnotify.Event{Name: w.path(w.c), Op: fsnotify.Write}
			w.k.Quiesce()
		}
		w.k.Count("raw_fs_events", int64(n))
	}
}

// watch hands the real handler an event for the source file.
// onOSCall is the disk seam of the handler: the editor may save right here.
func (w *world) onOSCall(op, path string) {
	if w.rendering && w.renderMid >= 0 && strings.HasPrefix(path, os.Getenv("TEMPL_DEV_MODE_ROOT")) {
		w.rosCalls++
		if w.rosCalls-1 == w.renderMid {
			w.renderMid, w.rendering = -1, false
			j := w.renderMidVar
			w.note("save of v%d handled while the program is loading its text file (at its disk call #%d, %s)", j, w.rosCalls-1, op)
			w.writeSource(j, w.fam.Variants[j].Source)
			r, err := w.watch()
			w.note("  (handled: GoUpdated=%v TextUpdated=%v err=%v)", r.GoUpdated, r.TextUpdated, err != nil)
			if err == nil && r.GoUpdated {
				w.needRebuild = true
			}
			w.k.Count("fault_save_handled_while_program_loads_text_file", 1)
			w.rendering, w.savedMidRender = true, true
		}
		return
	}
	if w.midAt >= 0 {
		w.osCalls++
		if w.osCalls-1 == w.midAt {
			// the hook runs before the call proper: a ReadFile at this very call sees the new content
			time.Sleep(time.Millisecond)
			w.filePath, w.fileContent, w.fileMTime = w.path(w.c), []byte(w.fam.Variants[w.midVar].Source), time.Now()
			w.fileVar = w.midVar
			w.midSaved = true
			w.k.Count("fault_save_lands_during_handling", 1)
		}
	}
	if path == w.filePath && op == "ReadFile" {
		w.readVar = w.fileVar
	}
}

func (w *world) watch() (generatecmd.GenerateResult, error) {
	w.tick()
	if w.useLoop {
		w.qmu.Lock()
		if len(w.queue) > 0 {
			w.queue = w.queue[1:]
		}
		w.qmu.Unlock()
	}
	w.osCalls, w.midSaved, w.readVar = 0, false, -2
	r, err := w.h.HandleEvent(context.Background(), fsnotify.Event{Name: w.path(w.c), Op: fsnotify.Write})
	w.stampTextFiles()
	w.midAt = -1
	w.pending = w.midSaved // a save that landed meanwhile has its own event coming
	if w.midSaved {
		w.note("a save of v%d landed while the handler was at work (it read v%d)", w.fileVar, w.readVar)
		if w.useLoop {
			w.raw.Events <- fsnotify.Event{Name: w.path(w.c), Op: fsnotify.Write}
			w.k.Quiesce()
		}
	}
	seen := w.readVar // what the handler parsed (the file may have moved on since)
	if err == nil && seen >= 0 {
		if r.TextUpdated {
			w.processed = seen
			w.tWritten = time.Now()
			w.held = append(w.held, seen)
		} else if w.processed != seen && !r.GoUpdated {
			// identical text file (hash suppression): the text file already says what the handler read
			w.processed = seen
			w.held = append(w.held, seen)
		}
	}
	return r, err
}

// rebuild is what `templ generate --watch --cmd` does when Go code changed: the program is
// rebuilt from the current sources and restarted.
func (w *world) rebuild() {
	j := w.fileVar
	latest, resave := w.fileVar, false
	if w.midSaved && w.readVar >= 0 {
		// the generated Go code on disk is that of what the handler read; the newer save is
		// still to be handled, and is put back after the program has been rebuilt
		j, resave = w.readVar, true
	}
	w.note("rebuild+restart: compiled variant is now v%d", j)
	w.c = j
	w.coldCache()
	// the file lives at the new variant's compile-time path from now on; give the
	// long-running handler the state it would have for that path
	w.writeSource(j, w.fam.Variants[j].Source)
	if _, err := w.watch(); err != nil {
		w.rc.Fail("harness", "priming handler at %s: %v", w.path(w.c), err)
	}
	w.processed = j
	w.tWritten = time.Now()
	w.held = []int{j}
	w.k.Count("rebuilds", 1)
	if resave {
		if latest >= 0 {
			w.writeSource(latest, w.fam.Variants[latest].Source)
		} else {
			w.writeSource(-1, "package v\n\ntempl Page(x string, y string, on bool) {\n\t<div")
		}
	}
}

func (w *world) check(when string) {
	rc := w.rc
	since := time.Since(w.tWritten)
	for ai, a := range argsets {
		w.rendering, w.rosCalls, w.savedMidRender = true, 0, false
		got, err := render(w.fam.Variants[w.c].Comp, a, true)
		w.rendering = false
		if w.savedMidRender {
			// the file was saved and handled while this render was under way: what it shows is
			// not judged (old or new text are both fine), what later renders show is
			if err != nil && !w.needRebuild {
				rc.Fail("C16/dev-render-error", "%s %s: dev-mode render of compiled v%d failed while a save was being handled: %v\n trace: %s", w.fam.Name, when, w.c, err, strings.Join(w.trace, "\n  "))
			}
			return
		}
		if err != nil && time.Now().Before(w.graceUntil) {
			// the text files have only just come back: an error now is not judged
			w.k.Count("probe_render_error_right_after_files_came_back", 1)
			return
		}
		if err != nil {
			rc.Fail("C16/dev-render-error", "%s %s: dev-mode render of compiled v%d with text of v%d failed: %v\n trace: %s", w.fam.Name, when, w.c, w.processed, err, strings.Join(w.trace, "\n  "))
			return
		}
		if since >= settle {
			// ground truth is what the file holds (the handler has been told about every save)
			target := w.processed
			if w.fileVar >= 0 {
				target = w.fileVar
			}
			want, werr := render(w.fam.Variants[target].Comp, a, false)
			if werr != nil {
				rc.Fail("harness", "normal render failed: %v", werr)
				return
			}
			if got != want {
				sig := "C16/dev-differs-from-fresh-build"
				if w.c == target {
					sig = "C16/literal-round-trip"
				}
				rc.Fail(sig, "%s %s args#%d: the file holds v%d and the handler has been told; compiled v%d (text file last written for v%d; edit path: %s) renders\n  %q\na fresh build of v%d renders\n  %q\n compiled source:\n%s\n edited source:\n%s\n trace: %s",
					w.fam.Name, when, ai, target, w.c, w.processed, w.ops(w.c, target), got, target, want, w.fam.Variants[w.c].Source, w.fam.Variants[target].Source, strings.Join(w.trace, "\n  "))
				return
			}
			w.k.Count("renders_compared_after_ttl", 1)
			if w.c != target {
				w.k.Count("probe_text_only_edit_rendered_by_old_binary", 1)
			}
		} else {
			ok := false
			for _, v := range w.held {
				if want, _ := render(w.fam.Variants[v].Comp, a, false); want == got {
					ok = true
					break
				}
			}
			if !ok {
				// old binary + newer text that matches no fresh build: same class as after the TTL
				sig := "C16/dev-differs-from-fresh-build"
				if len(w.held) == 1 && w.held[0] == w.c {
					sig = "C16/literal-round-trip"
				}
				rc.Fail(sig, "%s %s args#%d: render %v after the text file was written equals no variant the file has held since the build (held %v):\n  %q\n trace: %s", w.fam.Name, when, ai, since, w.held, got, strings.Join(w.trace, "\n  "))
				return
			}
			w.k.Count("probe_render_inside_ttl_window", 1)
		}
	}
}

func (w *world) ops(from, to int) string {
	if from == to {
		return "none"
	}
	lo, hi := from, to
	if lo > hi {
		lo, hi = hi, lo
	}
	var ops []string
	for i := lo + 1; i <= hi; i++ {
		ops = append(ops, w.fam.Variants[i].Op)
	}
	return strings.Join(ops, ",")
}

func (w *world) run() {
	rc, t := w.rc, w.t
	epoch0 = time.Now()
	w.c = t.Choose(len(w.fam.Variants), "initial-variant")
	w.useLoop = t.Bool("through-watcher-loop")
	if w.useLoop {
		w.startLoop()
		w.k.Quiesce()
		w.k.Count("probe_runs_through_watcher_loop", 1)
		defer func() {
			// let every armed coalescing timer fire and be drained, then stop the loop
			time.Sleep(settle + 500*time.Millisecond)
			w.k.Quiesce()
			w.cancel()
			w.k.Quiesce()
		}()
	}
	w.newHandler()
	w.fileVar = w.c
	w.rebuild()
	time.Sleep(settle + time.Millisecond)
	w.k.Quiesce()
	w.check("after initial build")
	maxActions := t.Range(3, rc.Param("max_actions", 40), "max-actions")
	wEdit, wWatch, wAdv, wRender, wRestartApp, wRestartW, wGarbage, wBurst, wGone, wTorn := t.Range(1, 6, "w-edit"), t.Range(1, 6, "w-watch"), t.Range(1, 4, "w-adv"), t.Range(1, 6, "w-render"), t.Range(0, 2, "w-rapp"), t.Range(0, 2, "w-rw"), t.Range(0, 1, "w-garbage"), t.Range(0, 1, "w-burst"), t.Range(0, 1, "w-gone"), t.Range(0, 1, "w-torn")
	for a := 0; a < maxActions && !rc.Failed(); a++ {
		ws := []int{wEdit, 0, wAdv, wRender, wRestartApp, wRestartW, wGarbage, 0, wGone, 0}
		if !w.pending && w.fileVar >= 0 {
			ws[9] = wTorn
		}
		if !w.pending {
			ws[7] = wBurst
		}
		if (w.pending && !w.useLoop) || (w.useLoop && w.queued() > 0) {
			ws[1] = wWatch
		}
		switch t.Pick(ws, "action") {
		case 0:
			j := t.Choose(len(w.fam.Variants), "edit-to")
			w.note("edit: file now holds v%d (%s)", j, w.ops(w.fileVar, j))
			w.writeSource(j, w.fam.Variants[j].Source)
			w.k.Count("edits", 1)
		case 1:
			if t.Chance(1, 5, "save-during-handling") {
				w.midAt, w.midVar = t.Choose(6, "mid-at"), t.Choose(len(w.fam.Variants), "mid-var")
			}
			w.writeFailed = false
			if w.fileVar >= 0 && t.Chance(1, 10, "write-of-generated-file-fails") {
				w.failNextWrite = true
			} else if w.fileVar >= 0 && t.Chance(1, 10, "write-of-text-file-fails") {
				w.failNextText = true
			}
			r, err := w.watch()
			w.failNextWrite, w.failNextText = false, false
			w.note("watch: GoUpdated=%v TextUpdated=%v err=%v", r.GoUpdated, r.TextUpdated, err != nil)
			if err != nil && w.writeFailed {
				// the save has not been dealt with; the user sees the error and saves the file again
				// (the same content, a new modification time)
				w.k.Count("fault_write_of_generated_file_failed", 1)
				w.note("the user saves v%d again", w.fileVar)
				w.writeSource(w.fileVar, w.fam.Variants[w.fileVar].Source)
				continue
			}
			if err != nil {
				w.k.Count("fault_unparseable_edit_seen_by_handler", 1)
				continue
			}
			if r.GoUpdated {
				w.rebuild()
			} else if w.fileVar != w.c {
				w.k.Count("edits_classified_text_only", 1)
			}
		case 2:
			ds := []time.Duration{0, time.Millisecond, 50 * time.Millisecond, 99 * time.Millisecond, 101 * time.Millisecond, time.Second, settle, settle + time.Second}
			d := ds[t.Choose(len(ds), "advance")]
			w.note("advance %v", d)
			time.Sleep(d)
			w.k.Quiesce()
		case 3:
			if w.pending {
				// the handler has not seen the latest edit yet: nothing to assert about it
				continue
			}
			w.note("render")
			w.renderMid = -1
			if !w.useLoop && t.Chance(1, 4, "save-during-load") {
				w.renderMid, w.renderMidVar = t.Choose(4, "load-call"), t.Choose(len(w.fam.Variants), "load-var")
			}
			w.check("render")
			w.renderMid = -1
			if w.needRebuild {
				w.needRebuild = false
				w.rebuild()
			}
		case 4:
			w.note("restart app")
			w.coldCache()
			w.k.Count("fault_app_restart", 1)
		case 5:
			w.note("restart watcher")
			w.newHandler()
			w.k.Count("fault_watcher_restart", 1)
			// a starting watcher walks the tree: every file is handled and the program rebuilt
			if w.fileVar >= 0 {
				if _, err := w.watch(); err == nil {
					w.rebuild()
				}
			}
		case 7:
			// a page that is reloaded again and again: renders arrive closer together than any
			// cache lifetime, for longer than settle; the last one must be fresh
			gap := []time.Duration{20 * time.Millisecond, 60 * time.Millisecond, 90 * time.Millisecond}[t.Choose(3, "burst-gap")]
			w.note("render every %v for %v", gap, settle+200*time.Millisecond)
			for e := time.Duration(0); e < settle+200*time.Millisecond && !rc.Failed(); e += gap {
				time.Sleep(gap)
				w.k.Quiesce()
				if _, err := render(w.fam.Variants[w.c].Comp, argsets[0], true); err != nil {
					rc.Fail("C16/dev-render-error", "%s: dev-mode render failed during a burst of renders: %v", w.fam.Name, err)
				}
			}
			w.k.Count("probe_render_bursts", 1)
			w.check("after a burst of renders")
		case 9:
			// disk fault: the last write of the text file was cut short (disk full, crash of the
			// writer): the file holds only its first lines. While it is like that the program may
			// fail to render; what it does render must still be a version the file has held.
			// The watcher is then restarted, which writes the file again.
			root := os.Getenv("TEMPL_DEV_MODE_ROOT")
			ents, _ := os.ReadDir(root)
			torn := 0
			for _, e := range ents {
				p := filepath.Join(root, e.Name())
				b, err := os.ReadFile(p)
				if err != nil || e.IsDir() {
					continue
				}
				lines := strings.Split(string(b), "\n")
				if len(lines) < 2 {
					continue
				}
				// (at least one line stays: an empty file reads as one empty literal, which - like a
				// cut in the middle of a line - nobody can tell from an intended one)
				keep := 1 + t.Choose(len(lines)-1, "torn-keep-lines")
				cut := strings.Join(lines[:keep], "\n")
				// (Cut at a line boundary. A cut in the middle of a line usually leaves a shorter but
				// well-formed literal, which no reader of this file format can tell from an
				// intended one: that the page is wrong while the file is in that state is not held
				// against the program.)
				os.WriteFile(p, []byte(cut), 0o644)
				now := time.Now()
				os.Chtimes(p, now, now)
				torn++
			}
			if torn == 0 {
				break
			}
			w.note("text file torn (short write)")
			w.k.Count("fault_text_file_torn", 1)
			for i, n := 0, t.Range(1, 3, "renders-while-torn"); i < n && !rc.Failed(); i++ {
				time.Sleep([]time.Duration{time.Millisecond, 150 * time.Millisecond, settle}[t.Choose(3, "torn-gap")])
				w.k.Quiesce()
				for _, a := range argsets {
					got, err := render(w.fam.Variants[w.c].Comp, a, true)
					if err != nil {
						w.k.Count("fault_render_failed_while_text_file_torn", 1)
						continue
					}
					ok := false
					for _, v := range w.held {
						if want, _ := render(w.fam.Variants[v].Comp, a, false); want == got {
							ok = true
							break
						}
					}
					if !ok {
						rc.Fail("C16/dev-differs-from-fresh-build", "%s: the text file was cut short by a failed write; the running program (compiled v%d) rendered without error\n  %q\nwhich is no version the file has held since the build (held %v)\n trace: %s", w.fam.Name, w.c, got, w.held, strings.Join(w.trace, "\n  "))
						break
					}
					w.k.Count("probe_render_succeeded_while_text_file_torn", 1)
				}
			}
			if rc.Failed() {
				break
			}
			// heal: a restarted watcher handles every file again
			w.note("restart watcher (heals the torn file)")
			w.newHandler()
			if _, err := w.watch(); err == nil {
				w.rebuild()
			}
		case 8:
			// disk fault: the text files are unreachable for a while (a volume that drops out, a
			// deploy that moves the directory aside and back). Renders in between may fail; once
			// the files are back - same content, same modification times - the page is right again.
			root := os.Getenv("TEMPL_DEV_MODE_ROOT")
			aside := root + ".aside"
			if err := os.Rename(root, aside); err != nil {
				rc.Fail("harness", "%v", err)
				break
			}
			cold := t.Bool("gone-with-cold-cache")
			if cold {
				// a program that starts while the files are away (fresh root path = empty cache;
				// the files come back under the new path)
				nr, err := os.MkdirTemp(os.Getenv("VSIM_TMP"), "devroot-")
				if err != nil {
					rc.Fail("harness", "%v", err)
					break
				}
				os.Remove(nr)
				os.Setenv("TEMPL_DEV_MODE_ROOT", nr)
				w.roots = append(w.roots, nr)
				root = nr
			}
			w.note("text files unreachable (cold cache: %v)", cold)
			n := t.Range(1, 3, "renders-while-gone")
			for i := 0; i < n; i++ {
				time.Sleep([]time.Duration{time.Millisecond, 150 * time.Millisecond, settle}[t.Choose(3, "gone-gap")])
				w.k.Quiesce()
				if _, err := render(w.fam.Variants[w.c].Comp, argsets[0], true); err != nil {
					w.k.Count("fault_render_failed_while_text_file_unreachable", 1)
				}
			}
			if err := os.Rename(aside, root); err != nil {
				rc.Fail("harness", "%v", err)
				break
			}
			w.note("text files back")
			w.k.Count("fault_text_files_unreachable", 1)
			w.tWritten = time.Now() // what is rendered within the settle time is not judged against the final text
			w.graceUntil = w.tWritten.Add(settle)
		case 6:
			w.note("edit: file now holds unparseable text")
			w.writeSource(-1, "package v\n\ntempl Page(x string, y string, on bool) {\n\t<div")
		}
	}
	if rc.Failed() {
		return
	}
	// final: faults stop; the handler sees the last edit, the TTL passes, the page is rendered
	if w.fileVar < 0 {
		j := t.Choose(len(w.fam.Variants), "final-edit")
		w.writeSource(j, w.fam.Variants[j].Source)
	}
	if w.useLoop && w.pending {
		// liveness: once saves stop, the coalesced event for the last save reaches the handler
		time.Sleep(settle)
		w.k.Quiesce()
		if w.queued() == 0 {
			rc.Fail("C16/edit-never-reaches-handler", "%s: 2 s after the last save the watcher loop has delivered no event for it\n trace: %s", w.fam.Name, strings.Join(w.trace, "\n  "))
			return
		}
	}
	for w.pending || (w.useLoop && w.queued() > 0) {
		r, err := w.watch()
		w.note("final watch: GoUpdated=%v TextUpdated=%v err=%v", r.GoUpdated, r.TextUpdated, err != nil)
		if err == nil && r.GoUpdated {
			w.rebuild()
		}
		if !w.useLoop {
			break
		}
	}
	time.Sleep(settle + time.Millisecond)
	w.k.Quiesce()
	w.check("final")
}

func simWorld(rc *kernel.RunCtx) {
	t := rc.T
	k := kernel.New(t, kernel.M2, 1<<30)
	kernel.Active = k
	simsync.NewEpoch()
	if len(families) == 0 {
		rc.Fail("harness", "no families compiled in")
		return
	}
	root, err := os.MkdirTemp(os.Getenv("VSIM_TMP"), "devroot-")
	if err != nil {
		rc.Fail("harness", "%v", err)
		return
	}
	os.Setenv("TEMPL_DEV_MODE_ROOT", root)
	var simDur time.Duration
	if rc.Run%5 == 4 {
		// every fifth run: the orchestration of `templ generate --watch --cmd` (pipeline_test.go)
		os.RemoveAll(root)
		esc := kernel.Bubble(rc.TB, func() {
			start := time.Now()
			pipelineWorld(rc, k)
			simDur = time.Since(start)
		})
		templruntime.SetDevelopmentMode(false)
		if esc != "" && !rc.Failed() {
			rc.Fail("C16/pipeline/panic", "%s", kernel.FirstLines(esc, 12))
		}
		rc.Res.SimNanos = int64(simDur)
		rc.Finish(k)
		rc.Res.Nontriv = k.Stats["edits"] > 0
		rc.Res.Key = rc.Res.LogHash
		return
	}
	w := &world{rc: rc, k: k, t: t, fam: families[t.Choose(len(families), "family")], midAt: -1, readVar: -2, renderMid: -1}
	esc := kernel.Bubble(rc.TB, func() {
		simos.SetHook(&simos.HookT{Now: time.Now, Before: func(op, path string) simos.Fault {
			w.onOSCall(op, path)
			if op == "WriteFile" && w.failNextText && strings.HasSuffix(path, ".txt") {
				w.failNextText, w.writeFailed = false, true
				w.k.Count("fault_write_of_text_file_failed", 1)
				return simos.Fault{Kind: "enospc"}
			}
			return simos.Fault{}
		}, Overlay: func(p string) ([]byte, time.Time, bool) {
			if p == w.filePath {
				return w.fileContent, w.fileMTime, true
			}
			return nil, time.Time{}, false
		}})
		defer simos.SetHook(nil)
		start := time.Now()
		w.run()
		simDur = time.Since(start)
	})
	templruntime.SetDevelopmentMode(false)
	os.RemoveAll(root)
	for _, r := range w.roots {
		os.RemoveAll(r)
	}
	if esc != "" && !rc.Failed() {
		rc.Fail("C16/panic", "%s", kernel.FirstLines(esc, 10))
	}
	rc.Res.SimNanos = int64(simDur)
	k.Logf("family %s", w.fam.Name)
	rc.Finish(k)
	rc.Res.Nontriv = k.Stats["edits"] > 0
	rc.Res.Key = rc.Res.LogHash
	if rc.WantSample || rc.Failed() {
		rc.Res.Sample = map[string]any{"family": w.fam.Name, "variants": len(w.fam.Variants), "trace": w.trace}
	}
}

func TestSim(t *testing.T) { kernel.Main(t, simWorld) }
