package watch

// The pipeline world: `templ generate --watch --cmd app` as Generate.Run orchestrates it. The
// real Run walks a directory, starts the watcher (prep renamed watcher.Recursive to a stand-in
// that takes raw events from this world instead of the operating system; the coalescing loop
// is the real one), hands events to its workers, collects their results in its post-generation
// goroutine and re-runs the user's command (prep renamed run.Run to a stand-in that calls this
// world). Clock and timers are the bubble's. The editor saves a template in a row of variants;
// the question is the orchestration's: once saves stop, is the program that is running one
// that was started after the last save that needed recompilation?

import (
	"bytes"
	"context"
	"fmt"
	"go/format"
	"io"
	"log/slog"
	"os"
	"path/filepath"
	"regexp"
	"runtime"
	"strings"
	"sync"
	"sync/atomic"
	"time"

	"github.com/a-h/templ/cmd/templ/generatecmd"
	"github.com/a-h/templ/cmd/templ/generatecmd/run"
	"github.com/a-h/templ/cmd/templ/generatecmd/watcher"
	"github.com/a-h/templ/generator"
	"github.com/a-h/templ/parser/v2"
	"github.com/a-h/templ/zzverif/kernel"
	"github.com/a-h/templ/zzverif/shim/simos"
	"github.com/fsnotify/fsnotify"
)

// In development mode the generated code passes every literal to WriteString with its index; a
// text-only edit changes nothing but those literals (the running program reads them from the
// text file). Two versions of the generated code with the literals blanked out differ exactly
// when the program has to be recompiled.
var reLiteral = regexp.MustCompile(`(templruntime\.WriteString\([^,]+, \d+, )"(?:[^"\\]|\\.)*"\)`)
var reGenComment = regexp.MustCompile(`(?m)^// templ: version:.*$`)

// (Source positions in error values move with the text around them; they are not behaviour.)
var rePosition = regexp.MustCompile(`Line: \d+, Col: \d+`)

func compiledShape(goCode string) string {
	s := reLiteral.ReplaceAllString(goCode, `$1"")`)
	s = rePosition.ReplaceAllString(s, "Line: 0, Col: 0")
	return reGenComment.ReplaceAllString(s, "")
}

// holdLog is a slog handler that parks the goroutine logging "File updated".
type holdLog struct {
	k     *kernel.Kernel
	inner slog.Handler
}

var holdResults atomic.Bool

func (h holdLog) Enabled(context.Context, slog.Level) bool { return true }
func (h holdLog) Handle(ctx context.Context, r slog.Record) error {
	if r.Message == "File updated" && holdResults.Load() {
		h.k.Park("worker-with-result", "hold", "", nil)
	}
	return nil
}
func (h holdLog) WithAttrs([]slog.Attr) slog.Handler { return h }
func (h holdLog) WithGroup(string) slog.Handler      { return h }

// expectedGo generates the template at path the way the statement says: that file alone.
func expectedGo(path string) string {
	tf, err := parser.Parse(path)
	if err != nil {
		return "unparseable: " + err.Error()
	}
	var b bytes.Buffer
	if _, err := generator.Generate(tf, &b, generator.WithFileName(filepath.Base(path))); err != nil {
		return "ungeneratable: " + err.Error()
	}
	out, err := format.Source(b.Bytes())
	if err != nil {
		return "unformattable: " + err.Error()
	}
	return string(out)
}

func pipelineWorld(rc *kernel.RunCtx, k *kernel.Kernel) {
	// Several goroutines of the command become runnable at the same fake instant (a watcher
	// timer and the collector's timer, a released worker and the collector). With one P they
	// run one after the other in run-queue order, so the run is a function of the tape (the
	// same under-approximation as in the rpc and lsp worlds).
	defer runtime.GOMAXPROCS(runtime.GOMAXPROCS(1))
	t := rc.T
	fam := families[t.Choose(len(families), "family")]
	var trace []string
	start := time.Now()
	note := func(format string, a ...any) {
		s := fmt.Sprintf(format, a...)
		k.Action(s)
		if len(trace) < 100 {
			trace = append(trace, fmt.Sprintf("t+%v %s", time.Since(start).Round(time.Millisecond), s))
		}
	}
	root, err := os.MkdirTemp(os.Getenv("VSIM_TMP"), "pipe-")
	if err != nil {
		rc.Fail("harness", "%v", err)
		return
	}
	defer os.RemoveAll(root)
	devRoot, err := os.MkdirTemp(os.Getenv("VSIM_TMP"), "pipedev-")
	if err != nil {
		rc.Fail("harness", "%v", err)
		return
	}
	defer os.RemoveAll(devRoot)
	os.Setenv("TEMPL_DEV_MODE_ROOT", devRoot)
	os.WriteFile(filepath.Join(root, "go.mod"), []byte("module pipe\n\ngo 1.23\n"), 0o644)
	src := filepath.Join(root, "t.templ")
	gen := filepath.Join(root, "t_templ.go")
	cur := -1
	save := func(v int) {
		time.Sleep(time.Millisecond) // two saves never share a modification time
		k.Quiesce()
		// the new content and its (fake-clock) modification time appear together
		tmp := src + ".saving"
		os.WriteFile(tmp, []byte(fam.Variants[v].Source), 0o644)
		now := time.Now()
		os.Chtimes(tmp, now, now)
		os.Rename(tmp, src)
		cur = v
	}
	// The command's build must not read half a file: writes of the generated file and the
	// stand-in's read of it exclude each other (a compiler sees either version; which one does
	// not matter to the oracle, because a write that changes the code is followed by a restart).
	var genMu sync.Mutex
	var failGenWrite, genWriteFailed atomic.Bool
	simos.SetHook(&simos.HookT{Now: time.Now,
		Before: func(op, path string) simos.Fault {
			if op == "WriteFile" && path == gen {
				genMu.Lock()
				if failGenWrite.CompareAndSwap(true, false) {
					genWriteFailed.Store(true)
					return simos.Fault{Kind: "enospc"} // disk full: this write of the generated file fails
				}
			}
			return simos.Fault{}
		},
		After: func(op, path string) {
			if path == gen {
				genMu.Unlock()
			}
		}})
	defer simos.SetHook(nil)
	save(t.Choose(len(fam.Variants), "initial-variant"))

	raw := &fsnotify.Watcher{Events: make(chan fsnotify.Event), Errors: make(chan error)}
	watcher.VerifWatcher = raw
	defer func() { watcher.VerifWatcher = nil }()
	starts := 0
	builtShape := ""
	run.VerifRunHook = func(ctx context.Context, dir, input string) error {
		genMu.Lock()
		b, err := os.ReadFile(gen)
		genMu.Unlock()
		if err != nil {
			return err
		}
		starts++
		builtShape = compiledShape(string(b))
		note("the command is (re)started: build #%d", starts)
		return nil
	}
	defer func() { run.VerifRunHook = nil }()

	// a worker that has handled an event can be held right before it reports the result (its
	// "File updated" log line is the seam): results of several saves then reach the collector
	// close together, in any order
	log := slog.New(holdLog{k: k, inner: slog.NewTextHandler(io.Discard, nil)})
	g, err := generatecmd.NewGenerate(log, generatecmd.Arguments{Path: root, Watch: true, Command: "app", WorkerCount: t.Range(1, 4, "workers")})
	if err != nil {
		rc.Fail("harness", "NewGenerate: %v", err)
		return
	}
	ctx, cancel := context.WithCancel(context.Background())
	done := make(chan error, 1)
	go func() { done <- g.Run(ctx) }()
	k.Quiesce()
	time.Sleep(500 * time.Millisecond) // the initial walk is handled, its results collected, the command started
	k.Quiesce()
	if starts == 0 {
		rc.Fail("C16/pipeline/command-never-started", "`templ generate --watch --cmd` generated the tree but did not start the command\n trace: %s", strings.Join(trace, "\n  "))
	}
	notify := func() {
		// an editor's save shows up as one to three raw Write events
		for i, n := 0, t.Range(1, 3, "raw-events"); i < n; i++ {
			raw.Events <- fsnotify.Event{Name: src, Op: fsnotify.Write}
			k.Quiesce()
		}
	}
	nact := t.Range(2, rc.Param("max_actions", 40)/2, "pipeline-actions")
	saves := 0
	releaseAll := func() {
		for i := 0; i < 1000; i++ {
			ps := k.ParkedList()
			if len(ps) == 0 {
				return
			}
			k.Run(ps[0], kernel.Decision{})
		}
	}
	hold := t.Bool("hold-results")
	if !hold {
		holdResults.Store(false)
	} else {
		holdResults.Store(true)
	}
	defer holdResults.Store(false)
	for a := 0; a < nact && !rc.Failed(); a++ {
		ws := []int{4, 3, 0}
		if len(k.ParkedList()) > 0 {
			ws[2] = 4
		}
		switch t.Pick(ws, "pipeline-action") {
		case 2:
			ps := k.ParkedList()
			p := ps[t.Choose(len(ps), "which-result")]
			note("a held worker reports its result")
			k.Run(p, kernel.Decision{})
			k.Count("probe_result_held_then_reported", 1)
		case 0:
			v := t.Choose(len(fam.Variants), "save-variant")
			note("save v%d (%s)", v, fam.Variants[v].Op)
			if t.Chance(1, 8, "disk-full-at-next-write") {
				failGenWrite.Store(true)
			}
			save(v)
			notify()
			saves++
			k.Count("edits", 1)
			if failGenWrite.Load() || genWriteFailed.Load() {
				// let the save be handled; if the write failed, the user sees the error and saves again
				time.Sleep(300 * time.Millisecond)
				k.Quiesce()
				releaseAll()
				failGenWrite.Store(false)
				if genWriteFailed.CompareAndSwap(true, false) {
					k.Count("fault_write_of_generated_file_failed", 1)
					note("the write of the generated file failed (disk full); the user saves v%d again", v)
					save(v)
					notify()
				}
			}
		case 1:
			ds := []time.Duration{time.Millisecond, 20 * time.Millisecond, 60 * time.Millisecond, 99 * time.Millisecond, 101 * time.Millisecond, 150 * time.Millisecond, 250 * time.Millisecond, time.Second}
			d := ds[t.Choose(len(ds), "advance")]
			note("advance %v", d)
			time.Sleep(d)
			k.Quiesce()
		}
	}
	// saves stop; held workers report; everything settles
	holdResults.Store(false)
	releaseAll()
	time.Sleep(2 * time.Second)
	k.Quiesce()
	releaseAll()
	if !rc.Failed() && cur >= 0 {
		b, err := os.ReadFile(gen)
		switch {
		case err != nil:
			rc.Fail("C16/pipeline/no-generated-code", "%v", err)
		case compiledShape(string(b)) != compiledShape(expectedGo(src)):
			rc.Fail("C16/pipeline/generated-code-stale", "%s: two seconds after the last save the generated Go code on disk is not the generation of the template as saved (v%d)\n trace: %s", fam.Name, cur, strings.Join(trace, "\n  "))
		case compiledShape(string(b)) != builtShape:
			now, was := strings.Split(compiledShape(string(b)), "\n"), strings.Split(builtShape, "\n")
			diff := ""
			for i := 0; i < len(now) || i < len(was); i++ {
				var x, y string
				if i < len(now) {
					x = now[i]
				}
				if i < len(was) {
					y = was[i]
				}
				if x != y {
					diff = fmt.Sprintf("first difference at line %d: now %q, built from %q", i+1, x, y)
					break
				}
			}
			rc.Fail("C16/pipeline/stale-binary", "%s: "+diff+"\ntwo seconds after the last save the generated Go code on disk differs (beyond its literals) from what the running command was built from: a save that needed recompilation was never followed by a restart (command started %d times, %d saves)\n trace: %s", fam.Name, starts, saves, strings.Join(trace, "\n  "))
		default:
			k.Count("pipeline_runs_with_current_binary", 1)
		}
	}
	// shut down
	cancel()
	k.Quiesce()
	time.Sleep(time.Second)
	k.Quiesce()
	select {
	case <-done:
	default:
		if !rc.Failed() {
			rc.Fail("C16/pipeline/run-does-not-stop", "Generate.Run has not returned a second after its context was cancelled\n trace: %s", strings.Join(trace, "\n  "))
		}
	}
	k.Count("pipeline_world_runs", 1)
	k.Count("pipeline_command_starts", int64(starts))
	if rc.WantSample || rc.Failed() {
		rc.Res.Sample = map[string]any{"sub": "pipeline", "family": fam.Name, "saves": saves, "command_starts": starts, "trace": trace}
	}
}
