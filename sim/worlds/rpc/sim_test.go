// Package rpc is the C18 world: the real jsonrpc2 stream and conn over a simulated
// byte transport, with an independent frame codec as oracle and scripted peer.
package rpc

import (
	"bytes"
	"context"
	"encoding/json"
	"errors"
	"fmt"
	"io"
	"reflect"
	"runtime"
	"sort"
	"strconv"
	"strings"
	"sync"
	"testing"

	"github.com/a-h/templ/lsp/jsonrpc2"
	"github.com/a-h/templ/zzverif/kernel"
	"github.com/a-h/templ/zzverif/shim/simhook"
	"github.com/a-h/templ/zzverif/shim/simsync"
)

// ---- independent frame codec (the oracle's own; shares nothing with stream.go) -------

type frame struct {
	Body []byte
	JSON map[string]any
	End  int // offset in the parsed buffer just past this frame
}

// splitFrames parses as many complete frames as buf holds. It returns the frames,
// the unconsumed rest and an error for anything that is not a well-formed frame.
func splitFrames(buf []byte) (frames []frame, rest []byte, err error) {
	total := len(buf)
	for {
		i := bytes.Index(buf, []byte("\r\n\r\n"))
		if i < 0 {
			return frames, buf, nil
		}
		n := -1
		for _, ln := range strings.Split(string(buf[:i]), "\r\n") {
			c := strings.IndexByte(ln, ':')
			if c < 0 {
				return frames, buf, fmt.Errorf("header line without colon: %q", ln)
			}
			if strings.EqualFold(strings.TrimSpace(ln[:c]), "Content-Length") {
				v, perr := strconv.Atoi(strings.TrimSpace(ln[c+1:]))
				if perr != nil || v < 0 {
					return frames, buf, fmt.Errorf("bad Content-Length %q", ln)
				}
				n = v
			}
		}
		if n < 0 {
			return frames, buf, fmt.Errorf("frame without Content-Length: %q", kernel.Short(string(buf[:i]), 80))
		}
		if len(buf) < i+4+n {
			return frames, buf, nil
		}
		body := buf[i+4 : i+4+n]
		var m map[string]any
		if jerr := json.Unmarshal(body, &m); jerr != nil {
			return frames, buf, fmt.Errorf("frame body of %d bytes is not one JSON object (%v): %q", n, jerr, kernel.Short(string(body), 120))
		}
		buf = buf[i+4+n:]
		frames = append(frames, frame{Body: body, JSON: m, End: total - len(buf)})
	}
}

func encodeFrame(v any) []byte {
	b, err := json.Marshal(v)
	if err != nil {
		panic(err)
	}
	return append([]byte(fmt.Sprintf("Content-Length: %d\r\n\r\n", len(b))), b...)
}

// norm removes null members: on the wire an absent field and null are the same value.
func norm(v any) any {
	switch x := v.(type) {
	case map[string]any:
		out := map[string]any{}
		for k, e := range x {
			if e == nil {
				continue
			}
			out[k] = norm(e)
		}
		return out
	case []any:
		out := make([]any, len(x))
		for i, e := range x {
			out[i] = norm(e)
		}
		return out
	}
	return v
}

// jsonRound passes a value through JSON (numbers become float64, as in decoded frames).
func jsonRound(v any) any {
	b, _ := json.Marshal(v)
	var out any
	_ = json.Unmarshal(b, &out)
	return out
}

func sameJSON(a, b []byte) bool {
	var x, y any
	if json.Unmarshal(a, &x) != nil || json.Unmarshal(b, &y) != nil {
		return false
	}
	return reflect.DeepEqual(norm(x), norm(y))
}

func msgJSON(m jsonrpc2.Message) []byte {
	b, err := json.Marshal(m)
	if err != nil {
		panic(err)
	}
	return b
}

// ---- message generation ----------------------------------------------------------------

var payloadBits = []string{"plain", "ünï©ødé", "日本語テキスト", "emoji 😀🎉", "\r\n\r\n", "Content-Length: 5\r\n\r\n{\"a\"}", "quote\"back\\slash", "  ", "\x00\x01\x7f", "<&>"}

func genPayload(t *kernel.Tape) string {
	var sb strings.Builder
	n := t.Range(0, 5, "payload-parts")
	for i := 0; i < n; i++ {
		sb.WriteString(payloadBits[t.Choose(len(payloadBits), "bit")])
	}
	if t.Chance(1, 12, "big") {
		sb.WriteString(strings.Repeat("日本😀x", t.Range(100, 6000, "bigreps")))
	}
	return sb.String()
}

func genID(t *kernel.Tape, i int) jsonrpc2.ID {
	if t.Bool("string-id") {
		if t.Chance(1, 3, "numeric-looking-string-id") {
			return jsonrpc2.NewStringID([]string{"7", "007", "-12", "0", "2147483648", "1e3", " 5"}[t.Choose(7, "which")])
		}
		return jsonrpc2.NewStringID(fmt.Sprintf("id-%d-ü", i))
	}
	return jsonrpc2.NewNumberID(int32(t.Choose(1<<20, "numid")))
}

func genMessage(t *kernel.Tape, i int) jsonrpc2.Message {
	params := map[string]any{"v": genPayload(t), "n": i, "arr": []any{1, "two", nil, map[string]any{"k": "ü"}}}
	switch t.Choose(5, "msgkind") {
	case 0:
		m, _ := jsonrpc2.NewCall(genID(t, i), "textDocument/ümlaut", params)
		return m
	case 1:
		m, _ := jsonrpc2.NewNotification("$/notify", params)
		return m
	case 2:
		m, _ := jsonrpc2.NewResponse(genID(t, i), params, nil)
		return m
	case 3:
		m, _ := jsonrpc2.NewResponse(genID(t, i), nil, jsonrpc2.NewError(jsonrpc2.Code(-32000-int32(t.Choose(50, "code"))), "failed: "+genPayload(t)))
		return m
	default:
		m, _ := jsonrpc2.NewCall(genID(t, i), "m", nil)
		return m
	}
}

// ---- plain transports for F and T ---------------------------------------------------------

type sink struct{ buf bytes.Buffer }

func (s *sink) Read([]byte) (int, error)    { return 0, io.EOF }
func (s *sink) Write(p []byte) (int, error) { return s.buf.Write(p) }
func (s *sink) Close() error                { return nil }

// chunkReader hands out data in tape-chosen chunks and panics if it is read again
// and again after EOF (an endless loop is turned into a crash the driver can see).
type chunkReader struct {
	data   []byte
	t      *kernel.Tape
	fixed  int
	eofs   int
	chunks int
}

func (c *chunkReader) Read(p []byte) (int, error) {
	if len(c.data) == 0 {
		c.eofs++
		if c.eofs > 1000 {
			panic("sim: reader keeps reading after EOF (hang)")
		}
		return 0, io.EOF
	}
	n := c.fixed
	if n == 0 {
		switch c.t.Choose(4, "chunkstyle") {
		case 0:
			n = 1
		case 1:
			n = 1 + c.t.Choose(7, "chunk")
		case 2:
			n = 1 + c.t.Choose(64, "chunk")
		default:
			n = len(c.data)
		}
	}
	if n > len(c.data) {
		n = len(c.data)
	}
	if n > len(p) {
		n = len(p)
	}
	copy(p, c.data[:n])
	c.data = c.data[n:]
	c.chunks++
	return n, nil
}
func (c *chunkReader) Write(p []byte) (int, error) { return len(p), nil }
func (c *chunkReader) Close() error                { return nil }

func writeAll(msgs []jsonrpc2.Message) ([]byte, error) {
	s := &sink{}
	st := jsonrpc2.NewStream(s)
	for _, m := range msgs {
		if _, err := st.Write(context.Background(), m); err != nil {
			return nil, err
		}
	}
	return s.buf.Bytes(), nil
}

// subF: framing under chunking.
func subF(rc *kernel.RunCtx, k *kernel.Kernel) {
	t := rc.T
	n := t.Range(1, rc.Param("max_msgs", 12), "nmsgs")
	var msgs []jsonrpc2.Message
	for i := 0; i < n; i++ {
		msgs = append(msgs, genMessage(t, i))
	}
	wire, err := writeAll(msgs)
	if err != nil {
		rc.Fail("C18/F/write-error", "stream.Write: %v", err)
		return
	}
	frames, rest, ferr := splitFrames(wire)
	if ferr != nil || len(rest) != 0 || len(frames) != len(msgs) {
		rc.Fail("C18/F/length-header-wrong", "independent codec: %d messages written, %d frames parsed, %d bytes left, err=%v", len(msgs), len(frames), len(rest), ferr)
		return
	}
	for i, f := range frames {
		if !sameJSON(f.Body, msgJSON(msgs[i])) {
			rc.Fail("C18/F/written-body-differs", "frame %d body %q is not message %q", i, kernel.Short(string(f.Body), 200), kernel.Short(string(msgJSON(msgs[i])), 200))
			return
		}
	}
	cr := &chunkReader{data: wire, t: t}
	st := jsonrpc2.NewStream(cr)
	for i := range msgs {
		m, _, err := st.Read(context.Background())
		if err != nil {
			rc.Fail("C18/F/read-error", "message %d of %d (%q) under chunking: %v", i, len(msgs), kernel.Short(string(msgJSON(msgs[i])), 120), err)
			return
		}
		if reflect.TypeOf(m) != reflect.TypeOf(msgs[i]) || !sameJSON(msgJSON(m), msgJSON(msgs[i])) {
			rc.Fail("C18/F/read-differs", "message %d read back as %T %q, sent %T %q", i, m, kernel.Short(string(msgJSON(m)), 200), msgs[i], kernel.Short(string(msgJSON(msgs[i])), 200))
			return
		}
	}
	if _, _, err := st.Read(context.Background()); err == nil {
		rc.Fail("C18/F/extra-message", "a message was read after the last one sent")
	}
	k.Count("F_messages_round_tripped", int64(len(msgs)))
	k.Count("F_transport_chunks", int64(cr.chunks))
	k.Count("F_wire_bytes", int64(len(wire)))
	k.Logf("F msgs=%d wire=%d chunks=%d sum=%x", len(msgs), len(wire), cr.chunks, sum(wire))
	if rc.WantSample {
		rc.Res.Sample = map[string]any{"sub": "F", "messages": len(msgs), "wire_bytes": len(wire), "chunks": cr.chunks, "first": kernel.Short(string(wire), 200)}
	}
}

// readUntilError reads messages until the first error; every message must be one that
// was sent, in order.
func readUntilError(rc *kernel.RunCtx, what string, data []byte, sent [][]byte, chunk int, t *kernel.Tape) (got int) {
	cr := &chunkReader{data: data, t: t, fixed: chunk}
	st := jsonrpc2.NewStream(cr)
	next := 0
	for reads := 0; reads < len(sent)+3; reads++ {
		m, _, err := st.Read(context.Background())
		if err != nil {
			return got
		}
		if m == nil {
			rc.Fail("C18/T/nil-message-without-error", "%s: Read returned neither message nor error", what)
			return got
		}
		b := msgJSON(m)
		found := -1
		for j := next; j < len(sent); j++ {
			if sameJSON(b, sent[j]) {
				found = j
				break
			}
		}
		if found < 0 {
			rc.Fail("C18/T/message-never-sent", "%s: Read returned %q which is none of the remaining sent messages", what, kernel.Short(string(b), 200))
			return got
		}
		next = found + 1
		got++
	}
	rc.Fail("C18/T/more-messages-than-sent", "%s: more reads succeeded than messages were sent", what)
	return got
}

// subT: truncation at every prefix, malformed headers.
func subT(rc *kernel.RunCtx, k *kernel.Kernel) {
	t := rc.T
	n := t.Range(1, 4, "nmsgs")
	var msgs []jsonrpc2.Message
	var sent [][]byte
	for i := 0; i < n; i++ {
		m := genMessage(t, i)
		msgs = append(msgs, m)
		sent = append(sent, msgJSON(m))
	}
	wire, err := writeAll(msgs)
	if err != nil {
		rc.Fail("C18/F/write-error", "stream.Write: %v", err)
		return
	}
	frames, _, _ := splitFrames(wire)
	// frame boundaries, to know how many complete messages a prefix holds
	var ends []int
	for _, f := range frames {
		ends = append(ends, f.End) // whatever header fields the writer chose to send
	}
	limit := rc.Param("all_prefixes_upto", 1500)
	evals := 0
	step := 1
	if len(wire) > limit {
		step = len(wire)/limit + 1
	}
	chunk := []int{0, 1, 3, 4096}[t.Choose(4, "t-chunk")]
	for L := 0; L <= len(wire) && !rc.Failed(); L += step {
		complete := 0
		for _, e := range ends {
			if e <= L {
				complete++
			}
		}
		got := readUntilError(rc, fmt.Sprintf("stream of %d bytes cut at %d", len(wire), L), wire[:L], sent, chunk, t)
		if !rc.Failed() && got != complete {
			rc.Fail("C18/T/truncated-stream-miscounted", "stream of %d messages (%d bytes) cut at byte %d holds %d complete messages but %d were read before the error", n, len(wire), L, complete, got)
		}
		evals++
		k.Count("fault_truncation_eof", 1)
	}
	// malformed headers in front of / instead of a valid frame
	body := sent[0]
	bl := len(body)
	muts := []string{
		"\r\n" + string(body),                                                          // missing header
		"Content-Length: 0\r\n\r\n",                                                    // zero
		"Content-Length: -5\r\n\r\n" + string(body),                                    // negative
		"Content-Length: abc\r\n\r\n" + string(body),                                   // non-numeric
		"Content-Length: 99999999999999\r\n\r\n" + string(body),                        // overflow
		fmt.Sprintf("Content-Length: %d\r\nContent-Length: %d\r\n\r\n%s", 1, bl, body), // duplicate, last wins or error
		fmt.Sprintf("Content-Length: %d\n\n%s", bl, body),                              // LF only
		fmt.Sprintf("X-Unknown: y\r\nContent-Type: application/vscode-jsonrpc; charset=utf-8\r\nContent-Length: %d\r\n\r\n%s", bl, body),
		fmt.Sprintf("%s: v\r\nContent-Length: %d\r\n\r\n%s", strings.Repeat("H", 70000), bl, body), // over-long line
		fmt.Sprintf("Content-Length: %d\r\n\r\n%s", bl+1000000, body),                              // length beyond the data (1 MB)
		fmt.Sprintf("Content-Length: %d\r\n\r\n%s", bl-1, body),                                    // one short
		fmt.Sprintf("Content-Length: %d\r\n\r\n%s", bl+1, body),                                    // one long
		"no colon here\r\n\r\n" + string(body),
		fmt.Sprintf("Content-Length:%d\r\n\r\n%s", bl, body), // no space
		fmt.Sprintf("content-length: %d\r\n\r\n%s", bl, body),
		fmt.Sprintf("Content-Length: %d\r\n\r\n[1,2,3]", 7), // valid JSON, not a message
		fmt.Sprintf("Content-Length: %d\r\n\r\n{}", 2),      // neither request nor response
		fmt.Sprintf("Content-Length: %d\r\n\r\n%s", 4, "null"),
	}
	for i, mu := range muts {
		if rc.Failed() {
			break
		}
		data := append([]byte(mu), wire...)
		// the mutated frame carries the first message's body, so that message may legitimately be read once more
		readUntilError(rc, fmt.Sprintf("malformed header #%d %q followed by %d valid messages", i, kernel.Short(mu, 60), n), data, append([][]byte{body}, sent...), chunk, t)
		evals++
		k.Count("fault_malformed_header", 1)
	}
	k.Count("T_streams_read", int64(evals))
	k.Logf("T msgs=%d wire=%d evals=%d sum=%x", n, len(wire), evals, sum(wire))
	if rc.WantSample {
		rc.Res.Sample = map[string]any{"sub": "T", "messages": n, "wire_bytes": len(wire), "prefixes": len(wire)/step + 1, "header_mutations": len(muts)}
	}
}

// ---- sub C: concurrent conn --------------------------------------------------------------

type queue struct {
	buf    []byte
	closed bool
}

type simIO struct {
	k    *kernel.Kernel
	name string
	in   *queue // read by this end
	out  *queue // written by this end
	mu   *sync.Mutex
}

var errBroken = errors.New("sim: transport closed")

func (c *simIO) Write(p []byte) (int, error) {
	kind := "body"
	if bytes.HasPrefix(p, []byte("Content-Length")) {
		kind = "hdr"
	}
	c.k.Park("wr:"+c.name, kind, kernel.Short(string(p), 40), nil)
	c.mu.Lock()
	defer c.mu.Unlock()
	if c.out.closed {
		return 0, errBroken
	}
	c.out.buf = append(c.out.buf, p...)
	return len(p), nil
}

func (c *simIO) Read(p []byte) (int, error) {
	d := c.k.Park("rd:"+c.name, "read", "", nil)
	c.mu.Lock()
	defer c.mu.Unlock()
	if d.Op == "eof" || (c.in.closed && len(c.in.buf) == 0) {
		return 0, io.EOF
	}
	n := d.N
	if n <= 0 || n > len(c.in.buf) {
		n = len(c.in.buf)
	}
	if n > len(p) {
		n = len(p)
	}
	copy(p, c.in.buf[:n])
	c.in.buf = c.in.buf[n:]
	return n, nil
}

func (c *simIO) Close() error {
	c.mu.Lock()
	c.in.closed = true
	c.out.closed = true
	c.mu.Unlock()
	return nil
}

type echo struct {
	V string `json:"v"`
	S string `json:"s,omitempty"`
	Q int    `json:"q,omitempty"`
	// Pad makes some frames far larger than any internal buffer or chunk size.
	Pad string `json:"pad,omitempty"`
}

type callRec struct {
	task      string
	value     string
	cancel    context.CancelFunc
	done      bool
	err       error
	res       echo
	cancelled bool
	answered  bool
	pad       int
	wireID    any
	seen      bool // decoded by the peer
	started   bool // the caller has entered conn.Call
}

type cworld struct {
	rc      *kernel.RunCtx
	k       *kernel.Kernel
	t       *kernel.Tape
	mu      sync.Mutex
	a2b     *queue
	b2a     *queue
	tapA    []byte // everything A wrote (for the independent decoder)
	tapPos  int
	calls   map[string]*callRec // by value
	order   []string
	notes   map[string][]int // notifier -> sequence numbers seen by the peer
	peerReq map[string]bool  // requests the scripted peer sent to A, awaiting echo
	peerIDs map[string]any   // the id each of them carried
	frames  int
}

func (w *cworld) decodeFromA() {
	w.mu.Lock()
	data := w.tapA[w.tapPos:]
	w.mu.Unlock()
	frames, rest, err := splitFrames(data)
	if err != nil {
		w.rc.Fail("C18/C/corrupt-or-interleaved-frame", "the peer's independent decoder cannot parse what the conn wrote: %v", err)
		return
	}
	w.tapPos += len(data) - len(rest)
	for _, f := range frames {
		w.frames++
		m := f.JSON
		params, _ := m["params"].(map[string]any)
		result, _ := m["result"].(map[string]any)
		switch {
		case m["method"] == "echo" && m["id"] != nil:
			v, _ := params["v"].(string)
			c := w.calls[v]
			if c == nil {
				w.rc.Fail("C18/C/unknown-call", "peer decoded a call with value %q that no caller issued", v)
				return
			}
			if c.seen {
				w.rc.Fail("C18/C/call-sent-twice", "call %q arrived twice", v)
				return
			}
			c.seen, c.wireID = true, m["id"]
		case m["method"] == "note":
			s, _ := params["s"].(string)
			q, _ := params["q"].(float64)
			w.notes[s] = append(w.notes[s], int(q))
		case m["method"] == nil && m["id"] != nil:
			v, _ := result["v"].(string)
			if !w.peerReq[v] {
				w.rc.Fail("C18/C/reply-to-peer-wrong", "conn replied %q to a peer request; outstanding peer requests: %v", kernel.Short(string(f.Body), 120), w.peerReq)
				return
			}
			if want := w.peerIDs[v]; fmt.Sprintf("%T:%v", norm(jsonRound(want)), jsonRound(want)) != fmt.Sprintf("%T:%v", m["id"], m["id"]) {
				w.rc.Fail("C18/C/reply-id-altered", "peer request %q carried id %#v, the reply carries %#v", v, want, m["id"])
				return
			}
			delete(w.peerReq, v)
		}
	}
}

func subC(rc *kernel.RunCtx, k *kernel.Kernel) {
	t := rc.T
	w := &cworld{rc: rc, k: k, t: t, a2b: &queue{}, b2a: &queue{}, calls: map[string]*callRec{}, notes: map[string][]int{}, peerReq: map[string]bool{}, peerIDs: map[string]any{}}
	var iomu sync.Mutex
	ioA := &simIO{k: k, name: "A", in: w.b2a, out: w.a2b, mu: &iomu}
	conn := jsonrpc2.NewConn(jsonrpc2.NewStream(ioA))
	ctxRun, cancelRun := context.WithCancel(context.Background())
	defer cancelRun()
	// A's handler: echo, in its own goroutine, parked at a seam before replying
	handler := func(ctx context.Context, reply jsonrpc2.Replier, req jsonrpc2.Request) error {
		var p echo
		_ = json.Unmarshal(req.Params(), &p)
		k.Park("hA:"+p.V, "handle", req.Method(), nil)
		return reply(ctx, echo{V: p.V}, nil)
	}
	useAsync := t.Bool("async-handler")
	h := jsonrpc2.ReplyHandler(handler)
	if useAsync {
		h = jsonrpc2.AsyncHandler(h)
	}
	conn.Go(ctxRun, h)
	// lock hand-overs as seams (a random subset per run): a goroutine that has just released
	// one of the conn's mutexes may be held there while others proceed
	yieldP := []int{0, 0, 1, 2, 4}[t.Choose(5, "unlock-yield-rate")]
	nyield := 0
	simsync.SetAfterUnlock(func() {
		if yieldP == 0 || !k.Quiescing.Load() || k.Capped() {
			return
		}
		if t.Chance(yieldP, 8, "yield-after-unlock") {
			nyield++
			k.Count("probe_parked_right_after_unlock", 1)
			k.Park(fmt.Sprintf("unlock#%d", nyield), "yield", "", nil)
		}
	})
	defer simsync.SetAfterUnlock(nil)
	// a goroutine that has just closed a channel (AsyncHandler opening the gate of the next
	// handler, a conn announcing it is done) is held there: the goroutine it woke runs alone
	// until it blocks, then the scheduler decides when this one continues
	nclose := 0
	simhook.SetYield(func(site string) {
		if !k.Quiescing.Load() {
			return
		}
		nclose++
		k.Park(fmt.Sprintf("after-close#%d", nclose), "yield", site, nil)
	})
	defer simhook.SetYield(nil)

	ncallers := t.Range(1, rc.Param("max_callers", 5), "ncallers")
	nnotifiers := t.Range(0, 2, "nnotifiers")
	finished := map[string]bool{}
	var fmu sync.Mutex
	for i := 0; i < ncallers; i++ {
		name := fmt.Sprintf("caller#%d", i)
		ncalls := t.Range(1, rc.Param("max_calls", 4), "ncalls")
		var recs []*callRec
		for j := 0; j < ncalls; j++ {
			v := fmt.Sprintf("%s/%d/ü%d", name, j, rc.Run)
			r := &callRec{task: name, value: v}
			if t.Chance(1, 6, "large-frame") {
				r.pad = []int{5000, 40000, 70000, 200000}[t.Choose(4, "padsize")]
			}
			w.calls[v] = r
			w.order = append(w.order, v)
			recs = append(recs, r)
		}
		go func() {
			for j, r := range recs {
				k.Park(name, "start", fmt.Sprint(j), nil)
				ctx, cancel := context.WithCancel(context.Background())
				w.mu.Lock()
				r.cancel = cancel
				r.started = true
				w.mu.Unlock()
				var res echo
				_, err := conn.Call(ctx, "echo", echo{V: r.value, Pad: strings.Repeat("p", r.pad)}, &res)
				w.mu.Lock()
				r.done, r.err, r.res = true, err, res
				w.mu.Unlock()
			}
			fmu.Lock()
			finished[name] = true
			fmu.Unlock()
		}()
	}
	for i := 0; i < nnotifiers; i++ {
		name := fmt.Sprintf("notifier#%d", i)
		n := t.Range(1, 4, "nnotes")
		go func() {
			for j := 0; j < n; j++ {
				k.Park(name, "start", fmt.Sprint(j), nil)
				_ = conn.Notify(context.Background(), "note", echo{V: "n", S: name, Q: j + 1})
			}
			fmu.Lock()
			finished[name] = true
			fmu.Unlock()
		}()
	}
	tap := func() {
		// copy what A wrote since last time into the tap and consume it (scripted peer reads everything)
		iomu.Lock()
		if len(w.a2b.buf) > 0 {
			w.tapA = append(w.tapA, w.a2b.buf...)
			w.a2b.buf = nil
		}
		iomu.Unlock()
		w.decodeFromA()
	}
	// how the peer ends the content part of its frames: as this implementation does, or with
	// white space after the value (what clients built on an encoder that ends every value with a
	// newline send; the counted content is still one JSON value)
	peerTail := []string{"", "", "\n", " \n", "\r\n"}[t.Choose(5, "peer-content-tail")]
	peerSend := func(v any) {
		b, err := json.Marshal(v)
		if err != nil {
			panic(err)
		}
		tail := peerTail
		if tail != "" && t.Chance(1, 4, "no-tail-this-time") {
			tail = ""
		}
		iomu.Lock()
		w.b2a.buf = append(w.b2a.buf, []byte(fmt.Sprintf("Content-Length: %d\r\n\r\n%s%s", len(b)+len(tail), b, tail))...)
		iomu.Unlock()
	}
	nPeerReq := 0
	maxActions := t.Range(10, rc.Param("max_actions", 200), "max-actions")
	wAnswer, wRelease, wCancel, wPeerReq, wNever := t.Range(1, 6, "w-answer"), t.Range(2, 8, "w-release"), t.Range(0, 3, "w-cancel"), t.Range(0, 2, "w-peerreq"), t.Range(0, 2, "w-never")
	// the peer may hang up (its process exits): everything it sent before has been read by then
	wHang := t.Choose(2, "w-hangup")
	hungUp := false
	never := map[string]bool{}
	act := 0
	k.Quiesce()
	for ; act < maxActions && !k.Capped() && !rc.Failed(); act++ {
		tap()
		if rc.Failed() {
			break
		}
		type action struct {
			w  int
			fn func()
		}
		var acts []action
		for _, p := range k.ParkedList() {
			p := p
			if p.Name == "rd:A" {
				iomu.Lock()
				avail := len(w.b2a.buf)
				iomu.Unlock()
				if avail == 0 {
					if !hungUp {
						// more likely while a call has been answered and its caller has not returned yet
						// (held at a seam on its way into, or out of, the wait for the response)
						wh := wHang
						w.mu.Lock()
						for _, c := range w.calls {
							if c.answered && !c.done {
								wh = wHang * 8
							}
						}
						w.mu.Unlock()
						acts = append(acts, action{wh, func() {
							k.Action("peer hangs up")
							hungUp = true
							k.Count("fault_peer_hangs_up", 1)
							k.Run(p, kernel.Decision{Op: "eof"})
						}})
					}
					continue
				}
				acts = append(acts, action{wRelease, func() {
					n := avail
					switch t.Choose(3, "rd-chunk") {
					case 0:
						n = 1
					case 1:
						n = 1 + t.Choose(avail, "rd-n")
					}
					k.Run(p, kernel.Decision{N: n})
				}})
				continue
			}
			acts = append(acts, action{wRelease, func() { k.Run(p, kernel.Decision{}) }})
		}
		// outstanding calls the peer has decoded and not answered
		w.mu.Lock()
		var outstanding []*callRec
		for _, v := range w.order {
			c := w.calls[v]
			if c.seen && !c.answered && !never[v] {
				outstanding = append(outstanding, c)
			}
		}
		w.mu.Unlock()
		for _, c := range outstanding {
			c := c
			if hungUp {
				break // nobody is there to answer or to be told anything
			}
			acts = append(acts, action{wAnswer, func() {
				c.answered = true
				if t.Chance(1, 4, "answer-with-error") {
					k.Action("peer answers " + c.value + " with error")
					peerSend(map[string]any{"jsonrpc": "2.0", "id": c.wireID, "error": map[string]any{"code": -32001, "message": "failed:" + c.value}})
					k.Count("peer_error_replies", 1)
				} else {
					k.Action("peer answers " + c.value)
					peerSend(map[string]any{"jsonrpc": "2.0", "id": c.wireID, "result": map[string]any{"v": c.value}})
				}
				if len(outstanding) > 1 && c != outstanding[0] {
					k.Count("probe_out_of_order_reply", 1)
				}
				if c.cancelled {
					k.Count("probe_late_reply_to_cancelled_call", 1)
				}
			}})
			if !c.cancelled && !c.done && k.Find(c.task) == nil && k.Find("wr:A") == nil {
				// caller is blocked inside Call's select (its frame is complete, nothing is being written)
				acts = append(acts, action{wCancel, func() {
					k.Action("cancel " + c.value)
					c.cancelled = true
					k.Count("fault_call_cancelled", 1)
					c.cancel()
					k.Quiesce()
				}})
			}
			acts = append(acts, action{wNever, func() {
				k.Action("peer will never answer " + c.value)
				never[c.value] = true
				k.Count("fault_reply_never_sent", 1)
			}})
		}
		// callers that have entered Call but whose frame is not out yet: either waiting for the
		// write lock or in the middle of their own frame. Cancelling them is single-outcome in
		// both cases (the write path looks at the context only before it starts a frame).
		w.mu.Lock()
		var entering []*callRec
		for _, v := range w.order {
			c := w.calls[v]
			if c.started && !c.seen && !c.done && !c.cancelled {
				entering = append(entering, c)
			}
		}
		w.mu.Unlock()
		for _, c := range entering {
			c := c
			if k.Find(c.task) != nil {
				continue
			}
			acts = append(acts, action{wCancel, func() {
				k.Action("cancel " + c.value + " before its frame is out")
				c.cancelled = true
				k.Count("fault_call_cancelled_while_queued_or_writing", 1)
				c.cancel()
				k.Quiesce()
			}})
		}
		if nPeerReq < 4 && !hungUp {
			acts = append(acts, action{wPeerReq, func() {
				nPeerReq++
				v := fmt.Sprintf("peer/%d/%d", nPeerReq, rc.Run)
				w.peerReq[v] = true
				k.Action("peer calls " + v)
				var pid any = "p" + fmt.Sprint(nPeerReq)
				switch t.Choose(4, "peer-id-shape") {
				case 1:
					pid = fmt.Sprint(100 + nPeerReq) // a string made of digits
				case 2:
					pid = 1000 + nPeerReq // a number
				case 3:
					pid = nPeerReq - 1 // a peer that numbers its requests from 0 (vscode-jsonrpc does)
				}
				w.peerIDs[v] = pid
				peerSend(map[string]any{"jsonrpc": "2.0", "id": pid, "method": "reverse", "params": map[string]any{"v": v}})
			}})
		}
		ws := make([]int, len(acts))
		tot := 0
		for i, a := range acts {
			ws[i] = a.w
			tot += a.w
		}
		if tot == 0 {
			break
		}
		acts[t.Pick(ws, "action")].fn()
	}
	// drain: faults stop; answer everything answerable, cancel the never-answered, release everything
	for i := 0; i < 5000 && !rc.Failed(); i++ {
		tap()
		progressed := false
		for _, p := range k.ParkedList() {
			if p.Name == "rd:A" {
				iomu.Lock()
				avail := len(w.b2a.buf)
				iomu.Unlock()
				if avail == 0 {
					continue
				}
				k.Run(p, kernel.Decision{N: avail})
			} else {
				k.Run(p, kernel.Decision{})
			}
			progressed = true
			break
		}
		if progressed {
			continue
		}
		w.mu.Lock()
		var c *callRec
		for _, v := range w.order {
			x := w.calls[v]
			if x.seen && !x.answered && !x.done {
				c = x
				break
			}
		}
		w.mu.Unlock()
		if c == nil {
			break
		}
		if never[c.value] || c.cancelled || hungUp {
			if !c.cancelled {
				c.cancelled = true
				k.Count("fault_call_cancelled", 1)
				c.cancel()
				k.Quiesce()
			} else {
				c.answered = true // nothing more to do for it
			}
			continue
		}
		c.answered = true
		peerSend(map[string]any{"jsonrpc": "2.0", "id": c.wireID, "result": map[string]any{"v": c.value}})
	}
	tap()
	// verdicts
	w.mu.Lock()
	for _, v := range w.order {
		c := w.calls[v]
		switch {
		case !c.done:
			rc.Fail("C18/C/call-never-returned", "%s (cancelled=%v answered=%v seen=%v) has not returned after the drain", v, c.cancelled, c.answered, c.seen)
		case c.err == nil:
			if c.res.V != c.value {
				rc.Fail("C18/C/wrong-response", "call %q returned the result %q", v, c.res.V)
			}
			k.Count("calls_matched", 1)
		case c.cancelled && errors.Is(c.err, context.Canceled):
			k.Count("calls_cancelled_returned_own_cancellation", 1)
		case strings.Contains(c.err.Error(), "failed:"):
			if !strings.Contains(c.err.Error(), "failed:"+c.value) {
				rc.Fail("C18/C/wrong-response", "call %q returned the error %q", v, c.err)
			}
			k.Count("calls_matched", 1)
		case hungUp && !c.answered:
			// the peer went away without answering: the call may end with its cancellation (above)
			// or with whatever error the connection reports
			k.Count("calls_failed_after_peer_hung_up", 1)
		default:
			rc.Fail("C18/C/unexpected-call-error", "call %q (cancelled=%v, answered=%v, peer hung up=%v) returned %v", v, c.cancelled, c.answered, hungUp, c.err)
		}
	}
	w.mu.Unlock()
	for s, qs := range w.notes {
		if !sort.IntsAreSorted(qs) {
			rc.Fail("C18/C/sender-order-broken", "notifications of %s arrived as %v", s, qs)
		}
	}
	if len(w.peerReq) > 0 && !rc.Failed() && !hungUp { // a peer that hung up is owed no replies
		rc.Fail("C18/C/peer-request-unanswered", "requests from the peer never answered by the conn's handler: %v", w.peerReq)
	}
	if n := jsonrpc2.PendingLen(conn); n != 0 && !rc.Failed() {
		rc.Fail("C18/C/pending-leftover", "%d entries left in the pending map after quiescence", n)
	}
	// shut down: close the transport, give the reader EOF
	conn.Close()
	if p := k.Find("rd:A"); p != nil {
		k.Run(p, kernel.Decision{Op: "eof"})
	}
	k.Quiesce()
	select {
	case <-conn.Done():
	default:
		if !rc.Failed() {
			rc.Fail("C18/C/read-loop-stuck", "conn did not finish after its transport was closed")
		}
	}
	k.Count("C_frames_decoded_by_peer", int64(w.frames))
	k.Count("C_actions", int64(act))
	if rc.WantSample || rc.Failed() {
		rc.Res.Sample = map[string]any{"sub": "C", "callers": ncallers, "notifiers": nnotifiers, "calls": len(w.order), "async_handler": useAsync, "frames": w.frames, "log": k.Lines[:min(len(k.Lines), 60)]}
	}
}

func sum(b []byte) uint64 {
	h := uint64(1469598103934665603)
	for _, c := range b {
		h = (h ^ uint64(c)) * 1099511628211
	}
	return h
}

func simWorld(rc *kernel.RunCtx) {
	// One release can make several goroutines runnable (a reply wakes its caller, a handler
	// that has replied unblocks the next one). With a single P they run one after the other in
	// run-queue order, so everything they do - including the tape draws of the lock hand-over
	// seams - is a function of the tape (same under-approximation as in the lsp world).
	runtime.GOMAXPROCS(1)
	sub := []string{"F", "T", "C", "C"}[rc.Run%4]
	if rc.Replay {
		sub = []string{"F", "T", "C", "C"}[rc.Run%4]
	}
	mode := kernel.M1
	if sub == "C" {
		mode = kernel.M2
	}
	k := kernel.New(rc.T, mode, rc.Param("max_steps", 3000))
	kernel.Active = k
	simsync.NewEpoch()
	switch sub {
	case "F":
		subF(rc, k)
	case "T":
		subT(rc, k)
	case "C":
		esc := kernel.Bubble(rc.TB, func() { subC(rc, k) })
		if esc != "" && !rc.Failed() {
			if strings.Contains(esc, "deadlock") || strings.Contains(esc, "blocked") {
				rc.Fail("C18/C/goroutine-leak", "goroutines left blocked after the conn was closed: %s", kernel.FirstLines(esc, 6))
			} else {
				rc.Fail("C18/C/panic", "%s", kernel.FirstLines(esc, 8))
			}
		}
	}
	k.Count("sub_"+sub, 1)
	rc.Finish(k)
	rc.Res.Nontriv = true
	rc.Res.Key = sub + "/" + rc.Res.LogHash
}

func TestSim(t *testing.T) { kernel.Main(t, simWorld) }
