package sse

// The second C19 world: the live-reload endpoint as the watch command really serves it.
// generatecmd.(*Generate).StartProxy builds the proxy handler and starts its HTTP server; the
// prep step redirected the server's ListenAndServe to a listener of this world, so the real
// net/http server - with whatever timeouts and settings the code under test gives it - runs
// inside the synctest bubble on in-memory connections (net.Pipe: synchronous, with deadlines
// on the fake clock). Browsers are goroutines that speak HTTP/1.1 over those connections.

import (
	"bufio"
	"context"
	"errors"
	"fmt"
	"io"
	"log/slog"
	"net"
	"net/http"
	"strings"
	"sync"
	"time"

	"github.com/a-h/templ/cmd/templ/generatecmd"
	"github.com/a-h/templ/zzverif/kernel"
	"github.com/a-h/templ/zzverif/shim/simhook"
)

type pipeListener struct {
	ch     chan net.Conn
	closed chan struct{}
	once   sync.Once
}

func (l *pipeListener) Accept() (net.Conn, error) {
	select {
	case c := <-l.ch:
		return c, nil
	case <-l.closed:
		return nil, net.ErrClosed
	}
}
func (l *pipeListener) Close() error   { l.once.Do(func() { close(l.closed) }); return nil }
func (l *pipeListener) Addr() net.Addr { return pipeAddr{} }

type pipeAddr struct{}

func (pipeAddr) Network() string { return "pipe" }
func (pipeAddr) String() string  { return "127.0.0.1:7331" }

// browser is one tab connected to the event stream.
type browser struct {
	id    int
	name  string
	conn  net.Conn
	mu    sync.Mutex
	ready bool // response headers received: the tab is subscribed
	data  int  // reload events received
	pings int
	eof   bool // the server ended the stream
	err   string
	// closedByUs: the world closed the tab
	closedByUs bool
	// hold, when set, makes the tab stop reading (a frozen tab, a slow network): the read loop
	// waits on it before every read
	hold     chan struct{}
	expected int // reloads broadcast while the tab was subscribed and open
}

func (b *browser) snapshot() (ready bool, data int, eof bool, err string) {
	b.mu.Lock()
	defer b.mu.Unlock()
	return b.ready, b.data, b.eof, b.err
}

func (b *browser) run() {
	defer func() {
		b.mu.Lock()
		b.eof = true
		b.mu.Unlock()
	}()
	if _, err := io.WriteString(b.conn, "GET /_templ/reload/events HTTP/1.1\r\nHost: localhost:7331\r\nAccept: text/event-stream\r\n\r\n"); err != nil {
		b.fail(err)
		return
	}
	rd := bufio.NewReader(holdReader{b})
	resp, err := http.ReadResponse(rd, nil)
	if err != nil {
		b.fail(err)
		return
	}
	if resp.StatusCode != http.StatusOK {
		b.fail(fmt.Errorf("status %d", resp.StatusCode))
		return
	}
	b.mu.Lock()
	b.ready = true
	b.mu.Unlock()
	// an EventSource: blocks separated by blank lines; a block with a data field is an event
	sc := bufio.NewScanner(resp.Body)
	sc.Buffer(make([]byte, 0, 64<<10), 1<<20)
	var data []string
	for sc.Scan() {
		ln := strings.TrimRight(sc.Text(), "\r")
		switch {
		case ln == "":
			if len(data) > 0 {
				b.mu.Lock()
				if strings.Join(data, "\n") == "ping" { // the keep-alive of this server
					b.pings++
				} else {
					b.data++
				}
				b.mu.Unlock()
			}
			data = nil
		case strings.HasPrefix(ln, "data:"):
			data = append(data, strings.TrimPrefix(ln[5:], " "))
		}
	}
	if err := sc.Err(); err != nil {
		b.fail(err)
	}
}

func (b *browser) fail(err error) {
	b.mu.Lock()
	if b.err == "" && !b.closedByUs {
		b.err = err.Error()
	}
	b.mu.Unlock()
}

// holdReader reads from the tab's connection unless the tab is frozen.
type holdReader struct{ b *browser }

func (h holdReader) Read(p []byte) (int, error) {
	h.b.mu.Lock()
	hold := h.b.hold
	h.b.mu.Unlock()
	if hold != nil {
		<-hold
	}
	return h.b.conn.Read(p)
}

func serverWorld(rc *kernel.RunCtx, k *kernel.Kernel) {
	t := rc.T
	var trace []string
	note := func(format string, a ...any) {
		s := fmt.Sprintf(format, a...)
		k.Action(s)
		if len(trace) < 80 {
			trace = append(trace, s)
		}
	}
	ln := &pipeListener{ch: make(chan net.Conn), closed: make(chan struct{})}
	simhook.SetListen(func(addr string) net.Listener { return ln })
	defer simhook.SetListen(nil)
	log := slog.New(slog.NewTextHandler(io.Discard, nil))
	g, err := generatecmd.NewGenerate(log, generatecmd.Arguments{Proxy: "http://127.0.0.1:1", ProxyPort: 7331, ProxyBind: "127.0.0.1", Path: "."})
	if err != nil {
		rc.Fail("harness", "NewGenerate: %v", err)
		return
	}
	ctx, cancel := context.WithCancel(context.Background())
	defer cancel()
	p, err := g.StartProxy(ctx)
	if err != nil || p == nil {
		rc.Fail("harness", "StartProxy: %v", err)
		return
	}
	k.Quiesce()
	var tabs []*browser
	open := func() []*browser {
		var out []*browser
		for _, b := range tabs {
			if !b.closedByUs {
				out = append(out, b)
			}
		}
		return out
	}
	connect := func() {
		b := &browser{id: len(tabs), name: fmt.Sprintf("tab#%d", len(tabs))}
		cl, sv := net.Pipe()
		b.conn = cl
		tabs = append(tabs, b)
		note("%s connects", b.name)
		go func() {
			select {
			case ln.ch <- sv:
			case <-ln.closed:
				sv.Close()
			}
		}()
		go b.run()
		k.Quiesce()
		if ready, _, eof, e := b.snapshot(); !ready || eof {
			rc.Fail("C19/server/connect-failed", "%s could not subscribe to the event stream (ready=%v ended=%v err=%q)\n trace: %s", b.name, ready, eof, e, strings.Join(trace, "\n  "))
		}
	}
	nb := 0
	broadcast := func() {
		nb++
		note("broadcast #%d", nb)
		for _, b := range open() {
			if _, _, eof, _ := b.snapshot(); !eof {
				b.expected++
			}
		}
		done := make(chan struct{})
		go func() {
			p.SendSSE("message", "reload")
			close(done)
		}()
		k.Quiesce()
		select {
		case <-done:
		default:
			rc.Fail("C19/server/broadcaster-blocked", "SendSSE #%d has not returned although nothing else can make progress\n trace: %s", nb, strings.Join(trace, "\n  "))
		}
		k.Count("broadcasts", 1)
	}
	nact := t.Range(3, rc.Param("max_actions", 40), "server-actions")
	for a := 0; a < nact && !rc.Failed(); a++ {
		ws := []int{3, 4, 3, 1, 1, 1}
		if len(open()) == 0 {
			ws = []int{1, 0, 1, 0, 0, 0}
		}
		if len(tabs) >= rc.Param("max_clients", 5) {
			ws[0] = 0
		}
		switch t.Pick(ws, "server-action") {
		case 0:
			connect()
		case 1:
			broadcast()
		case 2:
			ds := []time.Duration{time.Millisecond, 300 * time.Millisecond, 2 * time.Second, 6 * time.Second, 29 * time.Second, 31 * time.Second, 61 * time.Second, 3 * time.Minute, 11 * time.Minute}
			d := ds[t.Choose(len(ds), "server-advance")]
			note("advance %v", d)
			time.Sleep(d)
			k.Quiesce()
			k.Count("time_advances", 1)
		case 3: // a tab freezes (stops reading) or thaws
			o := open()
			b := o[t.Choose(len(o), "which-tab")]
			b.mu.Lock()
			if b.hold == nil {
				b.hold = make(chan struct{})
				b.mu.Unlock()
				note("%s freezes", b.name)
				k.Count("fault_stall", 1)
			} else {
				close(b.hold)
				b.hold = nil
				b.mu.Unlock()
				note("%s thaws", b.name)
				k.Quiesce()
			}
		case 4: // a tab is closed
			o := open()
			b := o[t.Choose(len(o), "which-tab")]
			note("%s is closed", b.name)
			b.mu.Lock()
			b.closedByUs = true
			if b.hold != nil {
				close(b.hold)
				b.hold = nil
			}
			b.mu.Unlock()
			b.conn.Close()
			k.Quiesce()
			k.Count("fault_client_closed", 1)
		case 5: // a reload is requested over HTTP (what `templ generate --notify-proxy` does)
			nb++
			note("broadcast #%d by POST", nb)
			for _, b := range open() {
				if _, _, eof, _ := b.snapshot(); !eof {
					b.expected++
				}
			}
			cl, sv := net.Pipe()
			go func() {
				select {
				case ln.ch <- sv:
				case <-ln.closed:
					sv.Close()
				}
			}()
			status := make(chan int, 1)
			go func() {
				defer cl.Close()
				io.WriteString(cl, "POST /_templ/reload/events HTTP/1.1\r\nHost: localhost:7331\r\nContent-Length: 0\r\nConnection: close\r\n\r\n")
				resp, err := http.ReadResponse(bufio.NewReader(cl), nil)
				if err != nil {
					status <- -1
					return
				}
				io.Copy(io.Discard, resp.Body)
				status <- resp.StatusCode
			}()
			k.Quiesce()
			select {
			case st := <-status:
				if st < 200 || st > 299 {
					rc.Fail("C19/server/post-failed", "POST /_templ/reload/events answered %d\n trace: %s", st, strings.Join(trace, "\n  "))
				}
			default:
				rc.Fail("C19/server/broadcaster-blocked", "POST /_templ/reload/events has not been answered although nothing else can make progress\n trace: %s", strings.Join(trace, "\n  "))
			}
			k.Count("broadcasts_by_post", 1)
		}
	}
	// faults stop: every frozen tab thaws, a moment passes, and every tab the world left open has
	// every reload that was broadcast while it was subscribed
	for _, b := range open() {
		b.mu.Lock()
		if b.hold != nil {
			close(b.hold)
			b.hold = nil
		}
		b.mu.Unlock()
	}
	k.Quiesce()
	time.Sleep(time.Second)
	k.Quiesce()
	for _, b := range open() {
		if rc.Failed() {
			break
		}
		_, data, eof, e := b.snapshot()
		switch {
		case eof:
			rc.Fail("C19/server/stream-ended", "%s never closed its connection, but the server ended its event stream (after %d of %d reloads; error %q)\n trace: %s", b.name, data, b.expected, e, strings.Join(trace, "\n  "))
		case data < b.expected:
			rc.Fail("C19/lost-event", "%s (through the HTTP server) was subscribed for %d reloads and received %d\n trace: %s", b.name, b.expected, data, strings.Join(trace, "\n  "))
		case data > b.expected:
			rc.Fail("C19/duplicate-event", "%s (through the HTTP server) was subscribed for %d reloads and received %d\n trace: %s", b.name, b.expected, data, strings.Join(trace, "\n  "))
		default:
			k.Count("tabs_with_every_reload", 1)
		}
	}
	// shut down: tabs close, the listener closes; nothing of the server may stay blocked
	for _, b := range open() {
		b.mu.Lock()
		b.closedByUs = true
		b.mu.Unlock()
		b.conn.Close()
	}
	ln.Close()
	cancel()
	k.Quiesce()
	k.Count("server_world_runs", 1)
	if rc.WantSample || rc.Failed() {
		rc.Res.Sample = map[string]any{"sub": "http-server", "tabs": len(tabs), "broadcasts": nb, "actions": trace}
	}
	rc.Res.Nontriv = len(tabs) > 0 && nb > 0
	_ = errors.Is
}
