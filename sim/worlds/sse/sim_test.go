// Package sse is the C19 world: the real sse.Handler behind the real proxy.Handler
// routing, with simulated ResponseWriters, request contexts, clock and broadcaster.
package sse

import (
	"context"
	"errors"
	"fmt"
	"io"
	"log/slog"
	"net/http"
	"net/http/httptest"
	"net/url"
	"sort"
	"strings"
	"sync"
	"testing"
	"time"

	"github.com/a-h/templ/cmd/templ/generatecmd/proxy"
	"github.com/a-h/templ/zzverif/kernel"
	"github.com/a-h/templ/zzverif/shim/simhook"
)

var errReset = errors.New("sim: connection reset by peer")

type client struct {
	id        int
	name      string
	k         *kernel.Kernel
	cancel    context.CancelFunc
	mu        sync.Mutex
	hdr       http.Header
	stream    []byte // bytes accepted so far
	dead      bool   // writes fail without parking (connection is gone)
	gone      bool   // ServeHTTP returned
	cancelled bool
	failed    bool
	stalled   bool
	firstB    int // index of the first broadcast issued after this client registered
	flushes   int
	// pingDue is when the handler's 5 s ping timer will fire (zero: not running, i.e. the
	// client is inside its ping write and the timer has not been re-armed yet)
	pingDue time.Time
}

func (c *client) Header() http.Header { return c.hdr }
func (c *client) WriteHeader(int)     {}
func (c *client) Flush()              { c.mu.Lock(); c.flushes++; c.mu.Unlock() }
func (c *client) Write(b []byte) (int, error) {
	c.mu.Lock()
	dead := c.dead
	c.mu.Unlock()
	if dead {
		return 0, errReset
	}
	d := c.k.Park(c.name, "write", kernel.Short(strings.ReplaceAll(string(b), "\n", "\\n"), 60), nil)
	if d.Op == "fail" {
		c.mu.Lock()
		c.dead = true
		c.mu.Unlock()
		c.cancel() // net/http cancels the request context when the connection breaks
		return 0, errReset
	}
	c.mu.Lock()
	c.stream = append(c.stream, b...)
	c.mu.Unlock()
	return len(b), nil
}

// events parses the accepted bytes as a text/event-stream and returns the data
// values of the complete events, pings excluded.
func (c *client) events() (data []string, pings int) {
	c.mu.Lock()
	s := strings.ReplaceAll(strings.ReplaceAll(string(c.stream), "\r\n", "\n"), "\r", "\n") // any SSE line ending
	c.mu.Unlock()
	for {
		i := strings.Index(s, "\n\n")
		if i < 0 {
			break
		}
		blk := s[:i]
		s = s[i+2:]
		var d []string
		for _, ln := range strings.Split(blk, "\n") {
			if v, ok := strings.CutPrefix(ln, "data:"); ok {
				d = append(d, strings.TrimPrefix(v, " "))
			}
		}
		if len(d) == 0 {
			continue
		}
		v := strings.Join(d, "\n")
		if v == "ping" {
			pings++
		} else {
			data = append(data, v)
		}
	}
	return
}

func (c *client) isGone() bool { c.mu.Lock(); defer c.mu.Unlock(); return c.gone }

type world struct {
	rc      *kernel.RunCtx
	k       *kernel.Kernel
	t       *kernel.Tape
	h       *proxy.Handler
	clients []*client
	bcasts  []string
	start   time.Time
	trace   []string
	// unstarted is the number of broadcasts whose per-client delivery goroutines exist but
	// have not run yet (they are parked at their goroutine-start seam).
	unstarted int
	burst     bool
}

// deliveries returns the delivery goroutines parked at their start seam.
func (w *world) deliveries() []*kernel.Parked {
	var out []*kernel.Parked
	for _, p := range w.k.ParkedList() {
		if strings.HasPrefix(p.Name, "go:") {
			out = append(out, p)
		}
	}
	return out
}

// startDeliveries lets every created-but-not-started delivery goroutine run (they are
// indistinguishable to the simulator, so they are released as one group).
func (w *world) startDeliveries() {
	ps := w.deliveries()
	w.unstarted = 0
	if len(ps) == 0 {
		return
	}
	w.k.Count("probe_delivery_goroutines_started_late", int64(len(ps)))
	// one at a time, in creation order: goroutines of different broadcasts for one client
	// must queue on its channel in broadcast order; those of one broadcast (created in map
	// order) go to different clients and commute
	for _, p := range ps {
		w.k.Run(p, kernel.Decision{})
	}
}

// inflight is the number of deliveries for c that are blocked on its channel right now.
func (w *world) inflight(c *client) int {
	n := w.owed(c)
	late := len(w.bcasts) - c.firstB // broadcasts since it connected
	if late > w.unstarted {
		late = w.unstarted
	}
	n -= late
	if n < 0 {
		n = 0
	}
	return n
}

func (w *world) note(format string, a ...any) {
	s := fmt.Sprintf(format, a...)
	w.k.Action(s)
	if len(w.trace) < 200 {
		w.trace = append(w.trace, s)
	}
}

// owed is the number of broadcasts the client should have written by now and has not.
func (w *world) owed(c *client) int {
	ev, _ := c.events()
	return len(w.bcasts) - c.firstB - len(ev)
}

func (w *world) parked(c *client) *kernel.Parked { return w.k.Find(c.name) }
func (w *world) idle(c *client) bool             { return !c.isGone() && w.parked(c) == nil }

func (w *world) connect() {
	c := &client{id: len(w.clients), k: w.k, hdr: http.Header{}}
	c.name = fmt.Sprintf("client#%d", c.id)
	ctx, cancel := context.WithCancel(context.Background())
	c.cancel = cancel
	w.clients = append(w.clients, c)
	req := httptest.NewRequest(http.MethodGet, "/_templ/reload/events", nil).WithContext(ctx)
	w.note("connect %s", c.name)
	go func() {
		w.h.ServeHTTP(c, req)
		c.mu.Lock()
		c.gone = true
		c.mu.Unlock()
	}()
	w.k.Quiesce()
	c.firstB = len(w.bcasts)
	if w.parked(c) == nil && !c.isGone() {
		// Legal (a handler need not ping at once) but worth counting.
		w.k.Count("connect_without_initial_write", 1)
	}
}

func (w *world) broadcast() {
	n := len(w.bcasts)
	viaPost := w.t.Chance(1, 5, "bcast-via-post")
	payload := fmt.Sprintf("r%d", n)
	if viaPost || w.t.Chance(1, 3, "same-payload") {
		payload = "reload" // what the watch loop really sends, every time
	}
	w.bcasts = append(w.bcasts, payload)
	w.note("broadcast %s post=%v", payload, viaPost)
	var mu sync.Mutex
	done := false
	// race stage: a client connects or an idle client leaves at the very moment of the
	// broadcast (no quiescence in between); nothing is assumed about whether that client
	// sees this broadcast
	var churn *client
	if w.burst && w.t.Bool("churn-during-broadcast") {
		var idle []*client
		for _, c := range w.clients {
			if w.idle(c) && w.owed(c) == 0 {
				idle = append(idle, c)
			}
		}
		if len(idle) > 0 && w.t.Bool("leave") {
			churn = idle[w.t.Choose(len(idle), "who-leaves")]
			churn.cancelled = true
			w.k.Count("fault_cancel_idle_during_broadcast", 1)
			go churn.cancel()
		} else if len(w.clients) < 8 {
			c := &client{id: len(w.clients), k: w.k, hdr: http.Header{}}
			c.name = fmt.Sprintf("client#%d", c.id)
			ctx, cancel := context.WithCancel(context.Background())
			c.cancel = cancel
			c.firstB = n + 1 // not required to see this broadcast
			w.clients = append(w.clients, c)
			req := httptest.NewRequest(http.MethodGet, "/_templ/reload/events", nil).WithContext(ctx)
			w.k.Count("fault_connect_during_broadcast", 1)
			go func() {
				w.h.ServeHTTP(c, req)
				c.mu.Lock()
				c.gone = true
				c.mu.Unlock()
			}()
		}
	}
	go func() {
		if viaPost {
			req := httptest.NewRequest(http.MethodPost, "/_templ/reload/events", nil)
			w.h.ServeHTTP(httptest.NewRecorder(), req)
		} else {
			w.h.SendSSE("message", payload)
		}
		mu.Lock()
		done = true
		mu.Unlock()
	}()
	w.k.Quiesce()
	mu.Lock()
	ok := done
	mu.Unlock()
	if !ok {
		st := []string{}
		for _, c := range w.clients {
			st = append(st, w.describe(c))
		}
		w.rc.Fail("C19/broadcaster-blocked", "broadcast #%d (%s) did not return while clients were %v", n, payload, st)
	}
	w.unstarted++
	if !w.t.Chance(1, 3, "hold-deliveries") {
		w.startDeliveries()
	}
	for _, c := range w.clients {
		if !c.isGone() && w.inflight(c) > 0 && w.parked(c) != nil {
			w.k.Count("probe_delivery_pending_behind_parked_client", 1)
		}
	}
}

func (w *world) describe(c *client) string {
	s := c.name + ":"
	switch {
	case c.isGone():
		s += "gone"
	case w.parked(c) != nil:
		s += "in-write"
	default:
		s += "idle"
	}
	if c.stalled {
		s += "+stalled"
	}
	if c.cancelled {
		s += "+cancelled"
	}
	return s
}

// mustFail: the only continuation that keeps every select single-ready is a failed write.
func (w *world) mustFail(c *client) bool {
	// owed, not inflight: whether an owed event already sits in some per-client queue or is
	// still with a delivery goroutine that has not run is the implementation's business, and a
	// client that returns to its select with both its context done and an event ready would
	// make the next step the Go runtime's choice
	return c.stalled || (c.cancelled && w.owed(c) > 0)
}

func (w *world) release(c *client) {
	p := w.parked(c)
	isPing := strings.Contains(p.Detail, "data: ping")
	w.k.Run(p, kernel.Decision{})
	if isPing {
		c.pingDue = time.Now().Add(5 * time.Second) // the handler re-arms its timer right after the write
	}
}

func (w *world) fail(c *client) {
	p := w.parked(c)
	if w.inflight(c) > 0 {
		w.k.Count("probe_disconnect_with_delivery_pending", 1)
	}
	if w.owed(c) > w.inflight(c) {
		w.k.Count("probe_disconnect_before_delivery_goroutine_ran", 1)
	}
	c.failed = true
	w.k.Count("fault_write_failed", 1)
	w.k.Run(p, kernel.Decision{Op: "fail"})
	if !c.isGone() {
		w.rc.Fail("C19/handler-stuck-after-write-failure", "%s: ServeHTTP did not return after its write failed", c.name)
	}
}

func (w *world) cancelIdle(c *client) {
	if w.owed(c) > 0 {
		w.k.Count("probe_disconnect_before_delivery_goroutine_ran", 1)
	}
	c.cancelled = true
	w.k.Count("fault_cancel_idle", 1)
	w.note("cancel idle %s", c.name)
	c.cancel()
	w.k.Quiesce()
	if !c.isGone() {
		w.rc.Fail("C19/handler-stuck-after-cancel", "%s: ServeHTTP did not return after its context was cancelled while idle", c.name)
	}
}

func (w *world) run() {
	rc, t := w.rc, w.t
	maxClients := t.Range(1, rc.Param("max_clients", 5), "max-clients")
	maxActions := t.Range(3, rc.Param("max_actions", 40), "max-actions")
	// Swarm: per-run weights.
	wConnect := t.Range(1, 6, "w-connect")
	wBcast := t.Range(1, 8, "w-bcast")
	wRelease := t.Range(1, 8, "w-release")
	wFail := t.Range(0, 4, "w-fail")
	wCancel := t.Range(0, 4, "w-cancel")
	wStall := t.Range(0, 3, "w-stall")
	wAdvance := t.Range(0, 3, "w-advance")

	for a := 0; a < maxActions && !w.k.Capped() && !rc.Failed(); a++ {
		type act struct {
			w  int
			fn func()
		}
		var acts []act
		if len(w.clients) < maxClients {
			acts = append(acts, act{wConnect, w.connect})
		}
		acts = append(acts, act{wBcast, w.broadcast})
		if len(w.deliveries()) > 0 {
			acts = append(acts, act{wRelease, func() {
				w.note("start pending deliveries")
				w.startDeliveries()
			}})
		}
		allIdleOrStalled := true
		// maxAdv: how far the clock may move without a ping timer firing for a client that is
		// parked in an event write (which would later face a select with two ready cases)
		maxAdv := time.Duration(1<<62 - 1)
		for _, c := range w.clients {
			c := c
			if c.isGone() {
				continue
			}
			if w.parked(c) != nil {
				if !c.stalled {
					allIdleOrStalled = false
					if strings.Contains(w.parked(c).Detail, "data: ping") {
						// inside its ping write: the timer is not running
					} else if d := time.Until(c.pingDue) - time.Millisecond; d < maxAdv {
						maxAdv = d
					}
				}
				if !w.mustFail(c) {
					acts = append(acts, act{wRelease, func() { w.release(c) }})
					if !c.cancelled {
						acts = append(acts, act{wStall, func() {
							c.stalled = true
							w.k.Count("fault_stall", 1)
							w.note("stall %s", c.name)
						}})
						if w.owed(c) == 0 {
							acts = append(acts, act{wCancel, func() {
								c.cancelled = true
								w.k.Count("fault_cancel_in_write", 1)
								w.note("cancel in-write %s", c.name)
								c.cancel()
								w.k.Quiesce()
							}})
						}
					}
				}
				acts = append(acts, act{wFail, func() { w.fail(c) }})
			} else {
				acts = append(acts, act{wCancel, func() { w.cancelIdle(c) }})
			}
		}
		if allIdleOrStalled {
			acts = append(acts, act{wAdvance, w.advance})
		} else if maxAdv >= time.Second {
			// some healthy client is still inside a write: the clock may move, but not past its ping timer
			acts = append(acts, act{wAdvance, func() { w.advanceBy(maxAdv) }})
		}
		ws := make([]int, len(acts))
		for i, x := range acts {
			ws[i] = x.w
		}
		acts[t.Pick(ws, "action")].fn()
	}
	if rc.Failed() {
		return
	}
	w.drainAndCheck()
}

func (w *world) advance() {
	ds := []time.Duration{5 * time.Second, time.Second, 2500 * time.Millisecond, 4999 * time.Millisecond, 5001 * time.Millisecond, 12 * time.Second}
	d := ds[w.t.Choose(len(ds), "advance")]
	w.note("advance %v", d)
	time.Sleep(d)
	w.k.Quiesce()
	w.k.Count("clock_advances", 1)
}

// advanceBy moves the clock while healthy clients are parked in event writes, staying
// short of their ping timers.
func (w *world) advanceBy(max time.Duration) {
	ds := []time.Duration{time.Second, 1500 * time.Millisecond, 3 * time.Second, 4900 * time.Millisecond}
	d := ds[w.t.Choose(len(ds), "advance-busy")]
	if d > max {
		d = max
	}
	// where the handler's ping timer stands is inferred from the ping writes seen so far; if
	// the implementation schedules pings differently, a timer may fire while a client is inside
	// a write and the order of its next two writes becomes the Go runtime's choice. The oracle
	// does not depend on that order; the run is only kept out of the determinism guard.
	w.rc.Res.Racy = true
	w.note("advance %v (clients busy)", d)
	time.Sleep(d)
	w.k.Quiesce()
	w.k.Count("clock_advances_while_client_in_write", 1)
}

func (w *world) drainAndCheck() {
	rc := w.rc
	w.note("drain")
	// Faults have stopped: let every healthy client run until it is idle.
	w.startDeliveries()
	for i := 0; i < 10000; i++ {
		var ps []*client
		for _, c := range w.clients {
			if !c.isGone() && w.parked(c) != nil && !w.mustFail(c) {
				ps = append(ps, c)
			}
		}
		if len(ps) == 0 {
			break
		}
		w.release(ps[w.t.Choose(len(ps), "drain-pick")])
	}
	for _, c := range w.clients {
		healthy := !c.failed && !c.cancelled && !c.stalled
		if !healthy {
			continue
		}
		if c.isGone() {
			rc.Fail("C19/healthy-client-dropped", "%s: handler returned although the client neither failed nor cancelled", c.name)
			continue
		}
		got, _ := c.events()
		want := append([]string(nil), w.bcasts[c.firstB:]...)
		g := append([]string(nil), got...)
		sort.Strings(want)
		sort.Strings(g)
		// every broadcast issued while connected must have been written (multiset inclusion)
		gi := 0
		var missing []string
		for _, x := range want {
			for gi < len(g) && g[gi] < x {
				gi++
			}
			if gi < len(g) && g[gi] == x {
				gi++
			} else {
				missing = append(missing, x)
			}
		}
		if len(missing) > 0 {
			rc.Fail("C19/lost-event", "%s connected before broadcasts %v, stayed healthy, and after drain never wrote %v (wrote %v)", c.name, want, missing, got)
		}
		if len(g) > len(want) {
			w.k.Count("stat_extra_events_seen", int64(len(g)-len(want)))
		}
		w.k.Count("checked_client_deliveries", int64(len(want)))
	}
	// Tear down: slow clients disconnect with whatever is pending; idle ones cancel.
	w.note("teardown")
	for _, c := range w.clients {
		if c.isGone() {
			continue
		}
		if w.parked(c) != nil {
			w.fail(c)
		} else {
			w.cancelIdle(c)
		}
	}
	w.startDeliveries()
	w.k.Quiesce()
	for _, c := range w.clients {
		if !c.isGone() {
			rc.Fail("C19/handler-stuck-at-teardown", "%s still inside ServeHTTP after teardown", c.name)
		}
	}
}

func simWorld(rc *kernel.RunCtx) {
	k := kernel.New(rc.T, kernel.M2, rc.Param("max_steps", 400))
	kernel.Active = k
	w := &world{rc: rc, k: k, t: rc.T, burst: rc.Param("burst", 0) == 1}
	var simDur time.Duration
	server := rc.Run%4 == 3 // every fourth run goes through the real HTTP server (server_test.go)
	esc := kernel.Bubble(rc.TB, func() {
		start := time.Now()
		if server {
			serverWorld(rc, k)
			simDur = time.Since(start)
			return
		}
		u, _ := url.Parse("http://127.0.0.1:1")
		w.h = proxy.New(slog.New(slog.NewTextHandler(io.Discard, nil)), "127.0.0.1", 7331, u)
		simhook.SetGoStart(func(site string) { k.Park("go:"+site, "start", "", nil) })
		defer simhook.SetGoStart(nil)
		w.run()
		simDur = time.Since(start)
	})
	if esc != "" {
		if strings.Contains(esc, "deadlock") || strings.Contains(esc, "blocked goroutines remain") {
			if !rc.Failed() {
				rc.Fail("C19/goroutine-leak", "goroutines of the handler were still blocked after every client had gone: %s", kernel.FirstLines(esc, 6))
			}
		} else {
			rc.Fail("C19/panic", "%s", kernel.FirstLines(esc, 8))
		}
	}
	rc.Res.SimNanos = int64(simDur)
	rc.Finish(k)
	faults := rc.Res.Stats["fault_write_failed"] + rc.Res.Stats["fault_cancel_idle"] + rc.Res.Stats["fault_cancel_in_write"] + rc.Res.Stats["fault_stall"]
	rc.Res.Key = rc.Res.LogHash
	if server {
		return
	}
	rc.Res.Nontriv = len(w.clients) > 0 && len(w.bcasts) > 0 && (faults > 0 || k.Switches > 0)
	if rc.WantSample || rc.Failed() {
		rc.Res.Sample = map[string]any{"actions": w.trace, "clients": len(w.clients), "broadcasts": len(w.bcasts)}
	}
}

func TestSim(t *testing.T) { kernel.Main(t, simWorld) }
