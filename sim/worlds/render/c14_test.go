package render

import (
	"context"
	"errors"
	"fmt"
	"io"
	"log/slog"
	"net/http"
	"net/http/httptest"
	"os"
	"path/filepath"
	"runtime"
	"strings"
	"sync"
	"testing"
	"time"

	"github.com/a-h/templ"
	"github.com/a-h/templ/cmd/templ/generatecmd"
	templruntime "github.com/a-h/templ/runtime"
	"github.com/a-h/templ/zzverif/kernel"
	"github.com/a-h/templ/zzverif/shim/simsync"
	"github.com/a-h/templ/zzverif/worlds/render/corpus"
	"github.com/fsnotify/fsnotify"
)

var devModeOnce sync.Once
var devModeErr error
var devModeRoot string

// devFilesJustModified: the text files look as if they had been written a moment ago.
var devFilesJustModified bool

// coldDevCache makes the development-mode literal cache cold without touching its internals:
// the text files move to a fresh root directory (the cache is keyed by their paths), which is
// what a restarted program with an empty cache sees.
func coldDevCache() {
	old := devModeRoot
	root, err := os.MkdirTemp("", "verif-devmode-")
	if err != nil {
		return
	}
	ents, _ := os.ReadDir(old)
	for _, e := range ents {
		b, err := os.ReadFile(filepath.Join(old, e.Name()))
		if err != nil {
			continue
		}
		os.WriteFile(filepath.Join(root, e.Name()), b, 0o644)
		// The runtime treats a text file modified a moment ago differently from an older one
		// (it serves its cache without looking at the file). How long this process has been
		// running must not decide which of the two a run sees: the files are either years
		// old or dated in the future, as the run's tape says.
		mt := time.Date(2001, 1, 1, 0, 0, 0, 0, time.UTC)
		if devFilesJustModified {
			mt = time.Now().Add(24 * time.Hour)
		}
		os.Chtimes(filepath.Join(root, e.Name()), mt, mt)
	}
	os.Setenv("TEMPL_DEV_MODE_ROOT", root)
	devModeRoot = root
	os.RemoveAll(old)
}

// ensureDevModeFiles writes the development-mode text files of the corpus with the
// real watch-mode event handler (once per process).
func ensureDevModeFiles() error {
	devModeOnce.Do(func() {
		root, err := os.MkdirTemp("", "verif-devmode-")
		if err != nil {
			devModeErr = err
			return
		}
		os.Setenv("TEMPL_DEV_MODE_ROOT", root)
		devModeRoot = root
		if src := os.Getenv("VSIM_DEVFILES"); src != "" {
			// written once by the check's prep step (TestDevFiles below)
			ents, err := os.ReadDir(src)
			if err != nil || len(ents) == 0 {
				devModeErr = fmt.Errorf("VSIM_DEVFILES=%s: %v (%d files)", src, err, len(ents))
				return
			}
			for _, e := range ents {
				b, err := os.ReadFile(filepath.Join(src, e.Name()))
				if err != nil {
					devModeErr = err
					return
				}
				os.WriteFile(filepath.Join(root, e.Name()), b, 0o644)
			}
			return
		}
		devModeErr = writeDevModeFiles()
	})
	return devModeErr
}

// writeDevModeFiles runs the real watch-mode event handler over the corpus; the text files go
// to TEMPL_DEV_MODE_ROOT.
func writeDevModeFiles() error {
	_, self, _, _ := runtime.Caller(0)
	dir := filepath.Join(filepath.Dir(self), "corpus")
	h := generatecmd.NewFSEventHandler(slog.New(slog.NewTextHandler(io.Discard, nil)), dir, true, nil, false, true,
		func(string, []byte) error { return nil }, false)
	for _, f := range []string{"c.templ", "lit.templ", "shapes.templ"} { // shapes.templ holds all seeded families
		if _, err := h.HandleEvent(context.Background(), fsnotify.Event{Name: filepath.Join(dir, f), Op: fsnotify.Write}); err != nil {
			return err
		}
	}
	return nil
}

// TestDevFiles is run once by the check's prep step: it writes the text files to VSIM_DEVFILES_OUT.
func TestDevFiles(t *testing.T) {
	out := os.Getenv("VSIM_DEVFILES_OUT")
	if out == "" {
		t.Skip("VSIM_DEVFILES_OUT not set")
	}
	os.Setenv("TEMPL_DEV_MODE_ROOT", out)
	if err := writeDevModeFiles(); err != nil {
		t.Fatal(err)
	}
}

type c14render struct {
	Spec   int
	Kind   string // "render" | "http" | "shared"
	Fault  Fault
	FailAt int
	got    []byte
	err    error
	fired  bool
	status int
}

// parkRecorder is an http.ResponseWriter whose writes are scheduler seams.
type parkRecorder struct {
	*recorder
	park func(string, int)
}

func (p parkRecorder) Write(b []byte) (int, error) {
	p.park("write", len(b))
	return p.recorder.Write(b)
}

func c14World(rc *kernel.RunCtx) {
	t := rc.T
	burst := rc.Param("burst", 0) == 1
	maxSteps := rc.Param("max_steps", 1500)
	k := kernel.New(t, kernel.M1, 1<<30)
	kernel.Active = k
	takeLateUse() // nothing from an earlier run
	defer lockAware(k)()
	kn := drawKnobs(t, rc.Run)
	kn.OwnBuf = false
	kn.BufSize = blockBufSize(rc.Run, []int{16, 16, 64, 64, 512, 4096})
	devFileYear := 0
	dev := t.Chance(1, 4, "devmode")
	devFilesJustModified = dev && t.Chance(1, 3, "text-files-just-modified")
	simsync.NewEpoch()
	templruntime.DefaultBufferSize = kn.BufSize
	if burst {
		simsync.SetPoolPolicy(nil, 0) // the real sync.Pool
	} else {
		kn.install(t)
	}
	defer simsync.SetPoolPolicy(nil, 0)
	if dev {
		if err := ensureDevModeFiles(); err != nil {
			rc.Fail("harness", "dev mode files: %v", err)
			rc.Finish(k)
			return
		}
		coldDevCache()
	}
	templruntime.SetDevelopmentMode(dev)
	defer templruntime.SetDevelopmentMode(false)

	u := newUniverse(3)
	genUses, defaultC12 = map[*Node]*nodeExt{}, fullC12(3)
	defer func() { genUses, defaultC12 = nil, nil }()
	nspec := t.Range(1, 4, "nspecs")
	var specs []*Node
	var docs [][]byte
	var shared []templ.Component
	for i := 0; i < nspec; i++ {
		b := t.Range(1, rc.Param("max_nodes", 10), "budget")
		s := &Node{K: "seq", Kids: []*Node{genSpec(t, &b, 0)}}
		o := renderOnce(u, s, kn, Fault{}, -1, -1, false, nil, nil)
		if o.err != nil {
			rc.Fail("C14/clean-render-error", "solo render of %s (dev=%v): %v", s, dev, o.err)
			rc.Finish(k)
			return
		}
		specs = append(specs, s)
		docs = append(docs, o.got)
		shared = append(shared, (&Env{U: u, Static: true, C12: defaultC12, Ext: genUses}).Build(s)) // one component value shared by all tasks
	}
	if dev {
		// the solo renders above filled the literal cache; start the tasks on a cold cache so
		// that cache fills and lookups overlap between tasks
		coldDevCache()
	}
	// one CSS middleware per spec, shared by all tasks, with a registered subset
	var regs []templ.CSSClass
	for _, c := range defaultC12.Css {
		if t.Bool("register") {
			regs = append(regs, c)
		}
	}
	var mws []templ.CSSMiddleware
	var mwDocs [][]byte
	for i := range specs {
		mw := templ.NewCSSMiddleware(templ.Handler(shared[i]), regs...)
		rec := newRecorder()
		mw.ServeHTTP(rec, httptest.NewRequest(http.MethodGet, "/page", nil))
		if rec.status != http.StatusOK {
			rc.Fail("C14/clean-render-error", "solo request through the CSS middleware for %s: status %d", specs[i], rec.status)
			rc.Finish(k)
			return
		}
		mws = append(mws, mw)
		mwDocs = append(mwDocs, append([]byte(nil), rec.body.Bytes()...))
	}
	// hand-written roots rendered with a plain context: script values and css rules on their own
	bare := templ.Join(defaultC12.Scripts[0], defaultC12.Scripts[2], templ.ComponentFunc(func(ctx context.Context, w io.Writer) error {
		return templ.RenderCSSItems(ctx, w, defaultC12.Css[0], defaultC12.Css[2])
	}), templ.NewOnceHandle(templ.WithComponent(templ.Raw("<once-bare/>"))).Once())
	var bareBuf strings.Builder
	if err := bare.Render(context.Background(), &bareBuf); err != nil {
		rc.Fail("C14/clean-render-error", "solo render of hand-written root: %v", err)
		rc.Finish(k)
		return
	}
	bareDoc := []byte(bareBuf.String())
	if dev && t.Chance(1, 3, "devmode-disk-fault-before-tasks") {
		// earlier in the life of the process the text files were unreachable for a while and a
		// render failed for it; the files are back when the concurrent renders start
		aside := devModeRoot + ".aside"
		if err := os.Rename(devModeRoot, aside); err == nil {
			if o := renderOnce(u, specs[0], kn, Fault{}, -1, -1, false, nil, nil); o.err != nil {
				k.Count("fault_devmode_render_failed_while_text_files_unreachable", 1)
			}
			if err := os.Rename(aside, devModeRoot); err != nil {
				rc.Fail("harness", "%v", err)
			}
			k.Count("fault_devmode_text_files_unreachable", 1)
		}
	}
	if dev {
		coldDevCache()
	}
	// css components and scripts whose arguments this process has never seen: their class names
	// and function names are computed for the first time in the concurrent phase
	freshComp := func(i int) templ.Component {
		v := fmt.Sprintf("fresh-%d-%d", rc.Run, i)
		return templ.Join(corpus.ClassInline(v), corpus.ScriptInline(v), corpus.ClassInline(v))
	}
	// once handles nobody has used yet: their first use happens in the concurrent phase
	u2 := newUniverse(3)
	ntasks := t.Range(2, rc.Param("max_tasks", 6), "ntasks")
	faultsLeft := t.Choose(3, "nfaults")
	plan := make([][]*c14render, ntasks)
	for i := range plan {
		m := t.Range(1, rc.Param("max_renders", 4), "nrenders")
		for j := 0; j < m; j++ {
			r := &c14render{Spec: t.Choose(nspec, "spec"), FailAt: -1}
			r.Kind = []string{"render", "render", "shared", "http", "mw", "httpfail", "bare", "fresh"}[t.Choose(8, "kind")]
			if r.Kind == "fresh" {
				r.Spec = t.Choose(2, "fresh-value") // which of the run's two never-seen-before values
			}
			if faultsLeft > 0 && r.Kind == "render" && t.Chance(1, 3, "faulty") {
				faultsLeft--
				if t.Bool("fault-writer") && len(docs[r.Spec]) > 0 {
					r.Fault = Fault{Kind: []string{"short", "zero"}[t.Choose(2, "fk")], At: t.Choose(len(docs[r.Spec]), "fat")}
				} else {
					r.FailAt = t.Choose(4, "failpoint")
				}
			}
			plan[i] = append(plan[i], r)
		}
	}
	for i := range plan {
		i := i
		name := fmt.Sprintf("render#%d", i)
		k.GoNamed(name, func() {
			for j, r := range plan[i] {
				k.Park(name, "start", fmt.Sprint(j), nil)
				park := func(kind string, n int) { k.Park(name, kind, fmt.Sprint(n), nil) }
				switch r.Kind {
				case "render":
					hook := func(kind, key string) { k.Park(name, kind, key, nil) }
					o := renderOnce(u2, specs[r.Spec], kn, r.Fault, r.FailAt, -1, false, hook, park)
					r.got, r.err = o.got, o.err
					r.fired = o.w.fired || o.env.Fired != ""
				case "shared":
					w := &core{park: park, limit: 4 << 20}
					r.err = shared[r.Spec].Render(context.Background(), w.as(kn.WKind))
					r.got, w.done = w.got, true
				case "http":
					rec := newRecorder()
					templ.Handler(shared[r.Spec]).ServeHTTP(parkRecorder{rec, park}, httptest.NewRequest(http.MethodGet, "/", nil))
					r.got, r.status = rec.body.Bytes(), rec.status
				case "fresh":
					w := &core{park: park, limit: 4 << 20}
					r.err = freshComp(r.Spec).Render(context.Background(), w.as(kn.WKind))
					r.got, w.done = w.got, true
				case "bare":
					w := &core{park: park, limit: 4 << 20}
					r.err = bare.Render(context.Background(), w.as(kn.WKind))
					r.got, w.done = w.got, true
				case "httpfail":
					// a request whose component fails after writing part of the document
					rec := newRecorder()
					failing := templ.Join(shared[r.Spec], templ.ComponentFunc(func(context.Context, io.Writer) error { return errChunk }))
					templ.Handler(failing).ServeHTTP(parkRecorder{rec, park}, httptest.NewRequest(http.MethodGet, "/", nil))
					r.got, r.status = rec.body.Bytes(), rec.status
				case "mw":
					rec := newRecorder()
					mws[r.Spec].ServeHTTP(parkRecorder{rec, park}, httptest.NewRequest(http.MethodGet, "/page", nil))
					r.got, r.status = rec.body.Bytes(), rec.status
				}
			}
		})
	}
	// the schedule
	pk := newPicker(t)
	for {
		k.Quiesce()
		ps := k.ParkedList()
		if len(ps) == 0 {
			if n := k.Blocked(); n > 0 {
				// nothing runs, nothing is held by the scheduler, and tasks wait for a lock of the
				// code under test: only one of themselves could release it
				rc.Fail("C14/deadlock", "%d render(s) wait forever for a lock in the code under test while no other render is running or held at a seam", n)
				rc.Res.Restart = true
			}
			break
		}
		runaway := false
		for _, p := range ps {
			if p.Kind == "runaway" {
				runaway = true
			}
		}
		if runaway || k.Steps > 100*maxSteps {
			// the parked tasks are abandoned; the worker process is restarted after this run
			rc.Fail("C14/render-does-not-terminate", "a render wrote more than %d bytes or needed %d scheduler steps (runaway recursion)", 4<<20, k.Steps)
			rc.Res.Restart = true
			break
		}
		if dev && !devFilesJustModified && t.Chance(1, 8, "text-files-written-again") {
			// `templ generate --watch` writes the text files again (here: the same content, a newer
			// modification time) while pages are being rendered: the next look at a file reloads it
			devFileYear++
			ents, _ := os.ReadDir(devModeRoot)
			for _, e := range ents {
				p := filepath.Join(devModeRoot, e.Name())
				if b, err := os.ReadFile(p); err == nil {
					os.WriteFile(p, b, 0o644)
					mt := time.Date(2001+devFileYear, 1, 1, 0, 0, 0, 0, time.UTC)
					os.Chtimes(p, mt, mt)
				}
			}
			k.Count("fault_devmode_text_files_written_again_mid_run", 1)
		}
		if burst {
			if dev && !devFilesJustModified && t.Chance(1, 3, "text-files-written-during-burst") {
				// race build: the files are written again while the renders are running
				done := make(chan struct{})
				go func() {
					defer close(done)
					for i := 0; i < 4; i++ {
						devFileYear++
						ents, _ := os.ReadDir(devModeRoot)
						for _, e := range ents {
							p := filepath.Join(devModeRoot, e.Name())
							mt := time.Date(2001+devFileYear, 1, 1, 0, 0, 0, 0, time.UTC)
							os.Chtimes(p, mt, mt)
						}
						runtime.Gosched()
					}
				}()
				k.Burst(ps, kernel.Decision{})
				<-done
				k.Count("fault_devmode_text_files_touched_during_burst", 1)
				continue
			}
			k.Burst(ps, kernel.Decision{})
			continue
		}
		i := 0
		if k.Steps < maxSteps {
			i = pk.pick(t, ps)
		}
		k.Run(ps[i], kernel.Decision{})
	}
	// the oracle: every render equals its solo document
	nfired := 0
	for i, rs := range plan {
		for j, r := range rs {
			spi := r.Spec
			if r.Kind == "fresh" {
				spi = 0 // r.Spec names the value, not a spec
			}
			D := docs[spi]
			if r.Kind == "mw" {
				D = mwDocs[spi]
			}
			if r.Kind == "bare" {
				D = bareDoc
			}
			if r.Kind == "fresh" {
				var sb strings.Builder
				if err := freshComp(r.Spec).Render(context.Background(), &sb); err != nil {
					rc.Fail("C14/clean-render-error", "solo render of the fresh-values page: %v", err)
					continue
				}
				D = []byte(sb.String())
			}
			what := fmt.Sprintf("task %d render %d (%s of %s, dev=%v, knobs %+v, %d tasks)", i, j, r.Kind, specs[spi], dev, kn, ntasks)
			if r.fired {
				nfired++
				k.Count("fault_render_failed_midway", 1)
				if r.err == nil {
					rc.Fail("C14/fault-swallowed", "%s: fault fired but Render returned nil", what)
				} else if !isPrefix(r.got, D) {
					rc.Fail("C14/faulted-render-not-prefix", "%s: got %q", what, kernel.Short(string(r.got), 200))
				}
				continue
			}
			if r.Kind == "httpfail" {
				if r.status != http.StatusInternalServerError || (len(D) >= 12 && containsDocPiece(r.got, D)) {
					rc.Fail("C14/concurrent-handler-failed", "%s: failing request answered with status %d body %q", what, r.status, kernel.Short(string(r.got), 200))
				}
				k.Count("fault_request_with_failing_component", 1)
				continue
			}
			if (r.Kind == "http" || r.Kind == "mw") && r.status != http.StatusOK {
				rc.Fail("C14/concurrent-handler-failed", "%s: status %d body %q", what, r.status, kernel.Short(string(r.got), 200))
				continue
			}
			if r.err != nil && !(errors.Is(r.err, errInjected) || errors.Is(r.err, errNested)) {
				rc.Fail("C14/concurrent-render-error", "%s: %v", what, r.err)
				continue
			}
			if r.err != nil { // a fail point that exists in this spec but r.fired was not set
				continue
			}
			if string(r.got) != string(D) {
				rc.Fail("C14/concurrent-render-differs", "%s: got %q, alone it renders %q", what, kernel.Short(string(r.got), 300), kernel.Short(string(D), 300))
			}
			k.Count("renders_compared_with_solo", 1)
		}
	}
	if dev {
		k.Count("probe_dev_mode_run", 1)
	}
	if lu := takeLateUse(); lu != "" {
		rc.Fail("C14/writer-used-after-its-render-returned", "%s", lu)
	}
	rc.Finish(k)
	rc.Res.Nontriv = k.Switches > 0 || burst
	rc.Res.Key = rc.Res.SchedHash + "/" + rc.Res.LogHash
	if rc.WantSample || rc.Failed() {
		var sp []string
		for _, s := range specs {
			sp = append(sp, s.String())
		}
		pl := []string{}
		for i, rs := range plan {
			for _, r := range rs {
				pl = append(pl, fmt.Sprintf("task%d:%s(spec%d,fault=%v,failAt=%d)", i, r.Kind, r.Spec, r.Fault, r.FailAt))
			}
		}
		rc.Res.Sample = map[string]any{"specs": sp, "plan": pl, "dev_mode": dev, "knobs": fmt.Sprintf("%+v", kn), "steps": k.Steps, "task_switches": k.Switches, "burst": burst}
	}
}

var _ = corpus.Source
