package render

import (
	"bufio"
	"context"
	"errors"
	"fmt"
	"io"
	"math/rand/v2"
	"os"
	"path/filepath"
	"sort"
	"strings"
	"time"

	"github.com/a-h/templ"
	templruntime "github.com/a-h/templ/runtime"
	"github.com/a-h/templ/zzverif/kernel"
	"github.com/a-h/templ/zzverif/shim/simsync"
	"github.com/a-h/templ/zzverif/worlds/render/corpus"
)

// exprSpans maps an expression key to its 1-based [first,last] line in c.templ.
var exprSpans = func() map[string][2]int {
	lines := strings.Split(corpus.Source, "\n")
	find := func(from int, sub string) int {
		for i := from; i < len(lines); i++ {
			if strings.Contains(lines[i], sub) {
				return i
			}
		}
		panic("corpus: cannot find " + sub)
	}
	one := func(sub string) [2]int { l := find(0, sub) + 1; return [2]int{l, l} }
	m := map[string][2]int{
		"Text.f":        one("<span>{ f() }</span>"),
		"Attr.f":        one("<i title={ f() }"),
		"CondAttr.f":    one("data-x={ f() }"),
		"Style.f":       one("<div style={ f() }>"),
		"StyleSlice.f":  one(`<div style={ []any{"color:red", f,`),
		"StyleSlice.g":  one(`<div style={ []any{"color:red", f,`),
		"ScriptExpr.f1": one("var v = {{ f1() }};"),
		"ScriptExpr.f2": one(`var s = "{{ f2() }}";`),
	}
	tm := find(0, "templ TextMulti(")
	g0 := find(tm, "{ g(")
	g1 := find(g0, ") }")
	m["TextMulti.g"] = [2]int{g0 + 1, g1 + 1}
	f := find(g1, "{ f() }")
	m["TextMulti.f"] = [2]int{f + 1, f + 1}
	return m
}()

type prng struct{ r *rand.Rand }

func (p prng) Choose(n int, _ string) int { return p.r.IntN(n) }

type knobs struct {
	BufSize  int
	PoolMode int
	WKind    int
	Sticky   bool
	OwnBuf   bool // caller passes its own *runtime.Buffer
}

// blockBufSize picks the render-buffer size for a run. It is a function of the run's block
// (64 consecutive run indices), not of the tape: a worker process executes exactly one block,
// so every buffer a process ever creates has one size, and a pool implementation that keeps
// buffers alive between runs (any correct one may) cannot make a run depend on the runs
// before it.
func blockBufSize(run uint64, sizes []int) int {
	b := run / 64
	b = (b ^ (b >> 7)) * 0x9e3779b97f4a7c15
	return sizes[(b>>33)%uint64(len(sizes))]
}

func drawKnobs(t *kernel.Tape, run uint64) knobs {
	sizes := []int{16, 64, 512, 4096, 8192}
	return knobs{
		BufSize:  blockBufSize(run, sizes),
		PoolMode: t.Choose(4, "poolmode"),
		WKind:    t.Choose(3, "wkind"),
		Sticky:   t.Bool("sticky"),
		OwnBuf:   t.Chance(1, 6, "ownbuf"),
	}
}

func (k knobs) install(t *kernel.Tape) {
	simsync.NewEpoch()
	templruntime.DefaultBufferSize = k.BufSize
	simsync.SetPoolPolicy(prng{rand.New(rand.NewPCG(uint64(t.Choose(1<<30, "poolseed")), 7))}, k.PoolMode)
}

type outcome struct {
	got     []byte
	err     error
	env     *Env
	w       *core
	flushed bool
}

// renderOnce renders spec once with the given faults.
func renderOnce(u *Universe, spec *Node, k knobs, f Fault, failAt, cancelAt int, preCancel bool, hook func(kind, key string), park func(string, int)) outcome {
	return renderInto(nil, u, spec, k, f, failAt, cancelAt, preCancel, hook, park)
}

// renderInto is renderOnce with an optional existing writer object: a caller may well
// render again into the very writer value whose previous render failed (a reused
// bytes.Buffer, a retried response) after it has recovered.
func renderInto(reuse *core, u *Universe, spec *Node, k knobs, f Fault, failAt, cancelAt int, preCancel bool, hook func(kind, key string), park func(string, int)) outcome {
	env := newEnv(u)
	env.FailAt, env.CancelAt, env.Hook = failAt, cancelAt, hook
	ctx, cancel := context.WithCancel(context.Background())
	defer cancel()
	env.Cancel = cancel
	if preCancel {
		cancel()
	}
	w := reuse
	if w == nil {
		w = &core{}
	}
	*w = core{fault: f, sticky: k.Sticky, park: park, limit: 4 << 20}
	c := env.Build(spec)
	var err error
	if k.OwnBuf {
		buf, _ := templruntime.GetBuffer(w.as(k.WKind))
		err = c.Render(ctx, buf)
		if ferr := templruntime.ReleaseBuffer(buf); err == nil {
			err = ferr
		}
	} else {
		err = c.Render(ctx, w.as(k.WKind))
	}
	w.done = true
	return outcome{got: w.got, err: err, env: env, w: w}
}

func c10World(rc *kernel.RunCtx) {
	t := rc.T
	k := kernel.New(t, kernel.M1, 1<<30)
	kernel.Active = k
	takeLateUse() // nothing from an earlier run
	kn := drawKnobs(t, rc.Run)
	kn.install(t)
	defer simsync.SetPoolPolicy(nil, 0)
	u := newUniverse(3)
	nspec := t.Range(1, 3, "nspecs")
	var specs []*Node
	var docs [][]byte
	for i := 0; i < nspec; i++ {
		b := t.Range(1, rc.Param("max_nodes", 30), "budget")
		// The root is always a generated component: the statement's guarantees (context check,
		// pooled buffer) are those of generated code; hand-written components appear inside.
		s := &Node{K: "seq", Kids: []*Node{genSpec(t, &b, 0)}}
		o := renderOnce(u, s, knobs{BufSize: kn.BufSize}, Fault{}, -1, -1, false, nil, nil)
		o2 := renderOnce(u, s, kn, Fault{}, -1, -1, false, nil, nil)
		if o.err != nil || o2.err != nil {
			rc.Fail("C10/clean-render-error", "fault-free render of %s returned %v / %v", s, o.err, o2.err)
			rc.Finish(k)
			return
		}
		if string(o.got) != string(o2.got) {
			rc.Fail("C10/writer-kind-changes-document", "fault-free renders of %s differ between a plain writer and knobs %+v:\n%q\n%q", s, kn, kernel.Short(string(o.got), 300), kernel.Short(string(o2.got), 300))
			rc.Finish(k)
			return
		}
		specs = append(specs, s)
		docs = append(docs, o.got)
	}
	main := 0
	spec, D := specs[main], docs[main]
	probe := renderOnce(u, spec, kn, Fault{}, -1, -1, false, nil, nil)
	npoints := probe.env.points
	k.Count("clean_renders", int64(2*nspec+1))
	if len(D) > kn.BufSize {
		k.Count("probe_document_larger_than_buffer", 1)
	}
	if len(probe.w.starts) > 1 {
		k.Count("probe_multiple_underlying_writes", 1)
	}

	fired := 0
	evals := 0
	var lastW *core
	after := func(what string) bool {
		// (d) a failed render never alters the result of a later render on the same pools -
		// alternately into a fresh writer and into the very writer object that just failed
		i := evals % len(specs)
		var reuse *core
		if evals%2 == 1 {
			reuse = lastW
		}
		o := renderInto(reuse, u, specs[i], kn, Fault{}, -1, -1, false, nil, nil)
		if o.err != nil {
			rc.Fail("C10/later-render-error", "after %s on %s: clean render of %s returned %v", what, spec, specs[i], o.err)
			return false
		}
		if string(o.got) != string(docs[i]) {
			rc.Fail("C10/later-render-altered", "after %s on %s: clean render of %s produced %q, want %q", what, spec, specs[i], kernel.Short(string(o.got), 200), kernel.Short(string(docs[i]), 200))
			return false
		}
		return true
	}
	check := func(what string, o outcome, cause error, mustFail bool) bool {
		evals++
		lastW = o.w
		if o.err == nil {
			if mustFail {
				rc.Fail("C10/fault-swallowed:"+strings.SplitN(what, "@", 2)[0], "%s on %s (knobs %+v): Render returned nil; writer got %d of %d bytes", what, spec, kn, len(o.got), len(D))
				return false
			}
			if string(o.got) != string(D) {
				rc.Fail("C10/nil-but-not-exact:"+strings.SplitN(what, "@", 2)[0], "%s on %s (knobs %+v): Render returned nil but writer got %q, want %q", what, spec, kn, kernel.Short(string(o.got), 200), kernel.Short(string(D), 200))
				return false
			}
			return true
		}
		if cause != nil && !errors.Is(o.err, cause) {
			rc.Fail("C10/cause-not-wrapped:"+strings.SplitN(what, "@", 2)[0], "%s on %s: error %q does not wrap %q", what, spec, o.err, cause)
			return false
		}
		if !isPrefix(o.got, D) {
			rc.Fail("C10/not-a-prefix:"+strings.SplitN(what, "@", 2)[0], "%s on %s (knobs %+v): writer got %q which is not a prefix of %q", what, spec, kn, kernel.Short(string(o.got), 300), kernel.Short(string(D), 300))
			return false
		}
		return true
	}

	// E@i / N@i: every fault point
	for i := 0; i < npoints && !rc.Failed(); i++ {
		o := renderOnce(u, spec, kn, Fault{}, i, -1, false, nil, nil)
		if o.env.Fired == "" {
			rc.Fail("C10/later-render-diverged", "the fault-free probe of %s reached %d fault points, but a later render on the same pools ended before point %d (err=%v)", spec, npoints, i, o.err)
			break
		}
		fired++
		cause := errInjected
		if o.env.Fired == "nested" {
			cause = errNested
			k.Count("fault_nested_component_error", 1)
		} else {
			k.Count("fault_expression_error", 1)
		}
		if !check(fmt.Sprintf("%s-error@%d(%s)", o.env.Fired, i, o.env.FailedK), o, cause, true) {
			break
		}
		if o.env.Fired == "expr" {
			var te templ.Error
			if !errors.As(o.err, &te) {
				rc.Fail("C10/expr-error-without-position", "expression %s failed in %s: error %q carries no templ.Error", o.env.FailedK, spec, o.err)
				break
			}
			span, ok := exprSpans[o.env.FailedK]
			if !ok {
				rc.Fail("C10/harness", "no span for %s", o.env.FailedK)
				break
			}
			if filepath.Base(filepath.ToSlash(te.FileName)) != "c.templ" || te.Line < span[0] || te.Line > span[1] {
				rc.Fail("C10/expr-error-wrong-position", "expression %s (c.templ lines %d-%d) failed: error reports file %q line %d", o.env.FailedK, span[0], span[1], te.FileName, te.Line)
				break
			}
		}
		if !after("expression/nested error") {
			break
		}
	}
	// X0
	if !rc.Failed() {
		o := renderOnce(u, spec, kn, Fault{}, -1, -1, true, nil, nil)
		k.Count("fault_context_cancelled_before_start", 1)
		fired++
		evals++
		if o.err == nil || !errors.Is(o.err, context.Canceled) {
			rc.Fail("C10/cancelled-context-ignored", "context cancelled before Render of %s: got err=%v", spec, o.err)
		} else if len(o.got) != 0 {
			rc.Fail("C10/output-after-cancel", "context cancelled before Render of %s: writer still got %q", spec, kernel.Short(string(o.got), 200))
		} else {
			after("pre-cancelled render")
		}
	}
	// X@s: cancellation when fault point s is reached (fail-stop or exact; no cause required)
	for i := 0; i < npoints && !rc.Failed(); i++ {
		o := renderOnce(u, spec, kn, Fault{}, -1, i, false, nil, nil)
		k.Count("fault_context_cancelled_mid_render", 1)
		fired++
		if !check(fmt.Sprintf("cancel@%d", i), o, nil, false) || !after("mid-render cancel") {
			break
		}
	}
	// W@k: writer offsets
	offs := writerOffsets(t, len(D), probe.w.starts, rc.Param("all_offsets_upto", 512))
	for _, kind := range []string{"short", "zero", "shortnil"} {
		for _, at := range offs {
			if rc.Failed() {
				break
			}
			if kind == "shortnil" && at%3 != 0 {
				continue
			}
			o := renderOnce(u, spec, kn, Fault{Kind: kind, At: at}, -1, -1, false, nil, nil)
			if !o.w.fired {
				rc.Fail("C10/later-render-diverged", "the fault-free document of %s has %d bytes, but a later render on the same pools never wrote byte %d (err=%v, got %d bytes)", spec, len(D), at, o.err, len(o.got))
				break
			}
			fired++
			k.Count("fault_writer_"+kind, 1)
			var cause error = errWriter
			must := true
			if kind == "shortnil" {
				cause, must = io.ErrShortWrite, false
			}
			if !check(fmt.Sprintf("writer-%s@%d", kind, at), o, cause, must) || !after("writer "+kind) {
				break
			}
		}
	}
	// development mode: the literals come from text files - here, in half of the runs, files that
	// a text-only edit has changed since the program was built, so that the document the files
	// define is not the one compiled in. A disk fault (the files unreachable for a while, or cut
	// short by a failed write) may fail renders; a render that returns nil delivers the document
	// the files define, and the fault must not alter renders after it is over.
	if !rc.Failed() && t.Chance(1, 4, "devmode-disk-fault") {
		if err := ensureDevModeFiles(); err != nil {
			rc.Fail("harness", "dev mode files: %v", err)
		} else {
			devFilesJustModified = t.Chance(1, 3, "text-files-just-modified")
			coldDevCache() // a fresh cache, and files dated as the tape says (see there)
			if t.Bool("text-only-edit") {
				// every literal gains a character at its end (an edit of static text)
				ents, _ := os.ReadDir(devModeRoot)
				for _, e := range ents {
					p := filepath.Join(devModeRoot, e.Name())
					b, err := os.ReadFile(p)
					if err != nil {
						continue
					}
					lines := strings.Split(string(b), "\n")
					for i, ln := range lines {
						if !strings.HasSuffix(ln, "\\") {
							lines[i] = ln + "~"
						}
					}
					fi, _ := os.Stat(p)
					os.WriteFile(p, []byte(strings.Join(lines, "\n")), 0o644)
					os.Chtimes(p, fi.ModTime(), fi.ModTime())
				}
				k.Count("probe_devmode_text_differs_from_compiled_literals", 1)
			}
			templruntime.SetDevelopmentMode(true)
			devRender := func() outcome {
				return renderOnce(u, spec, knobs{BufSize: kn.BufSize}, Fault{}, -1, -1, false, nil, nil)
			}
			// the document the text files define
			ref := devRender()
			want := ref.got
			if ref.err != nil {
				rc.Fail("C10/devmode-render-error", "development-mode render of %s: %v", spec, ref.err)
			}
			if t.Bool("cold-cache-at-fault") {
				coldDevCache()
			}
			// (files dated in the future are never looked at again once cached - that is what
			// "modified a moment ago" means to the runtime - so a change to them goes unnoticed by
			// design; the torn-file fault needs files the runtime does look at)
			tornFault := t.Bool("torn-instead-of-unreachable") && !devFilesJustModified
			aside := devModeRoot + ".aside"
			saved := map[string][]byte{}
			if !rc.Failed() {
				if tornFault {
					ents, _ := os.ReadDir(devModeRoot)
					for _, e := range ents {
						p := filepath.Join(devModeRoot, e.Name())
						b, err := os.ReadFile(p)
						if err != nil {
							continue
						}
						saved[p] = b
						lines := strings.Split(string(b), "\n")
						if len(lines) < 2 {
							continue
						}
						// at least one line stays (an empty file reads as one empty literal)
						keep := 1 + t.Choose(len(lines)-1, "keep-lines")
						os.WriteFile(p, []byte(strings.Join(lines[:keep], "\n")), 0o644)
						mt := time.Date(2002, 1, 1, 0, 0, 0, 0, time.UTC) // newer than what is cached (2001), older than "a moment ago"
						os.Chtimes(p, mt, mt)
					}
					k.Count("fault_devmode_text_file_torn", 1)
				} else if err := os.Rename(devModeRoot, aside); err != nil {
					rc.Fail("harness", "%v", err)
				} else {
					k.Count("fault_devmode_text_files_unreachable", 1)
				}
			}
			what := map[bool]string{true: "text files cut short by a failed write", false: "text files unreachable"}[tornFault]
			for i, n := 0, t.Range(1, 2, "renders-during-fault"); i < n && !rc.Failed(); i++ {
				o := devRender()
				evals++
				if o.err != nil {
					k.Count("fault_devmode_render_failed_during_disk_fault", 1)
					if !isPrefix(o.got, want) {
						rc.Fail("C10/not-a-prefix:devmode-disk-fault", "%s: render of %s failed with %v and wrote %q, not a prefix of the document", what, spec, o.err, kernel.Short(string(o.got), 200))
					}
				} else if string(o.got) != string(want) {
					rc.Fail("C10/nil-but-not-exact:devmode-disk-fault", "%s: render of %s returned nil but wrote %q; the document the text files defined is %q", what, spec, kernel.Short(string(o.got), 200), kernel.Short(string(want), 200))
				}
			}
			// the fault is over: the files are back as they were
			if tornFault {
				for p, b := range saved {
					os.WriteFile(p, b, 0o644)
					mt := time.Date(2003, 1, 1, 0, 0, 0, 0, time.UTC)
					os.Chtimes(p, mt, mt)
				}
			} else if _, err := os.Stat(aside); err == nil {
				if err := os.Rename(aside, devModeRoot); err != nil {
					rc.Fail("harness", "%v", err)
				}
			}
			for i := 0; i < 2 && !rc.Failed(); i++ {
				o := devRender()
				if o.err != nil {
					rc.Fail("C10/later-render-error", "development mode: %s for a while, now back unchanged; render %d of %s afterwards returned %v", what, i, spec, o.err)
				} else if string(o.got) != string(want) {
					rc.Fail("C10/later-render-altered", "development mode: %s for a while, now back unchanged; render %d of %s afterwards wrote %q, want %q", what, i, spec, kernel.Short(string(o.got), 200), kernel.Short(string(want), 200))
				}
			}
			templruntime.SetDevelopmentMode(false)
		}
	}
	// a caller-owned *bufio.Writer that outlives several renders, with renders elsewhere in between
	for _, size := range []int{4096, 8192, 64} {
		if rc.Failed() {
			break
		}
		cw := &core{}
		bw := bufio.NewWriterSize(plainW{cw}, size)
		var want []byte
		for i := 0; i < 3 && !rc.Failed(); i++ {
			j := (i + evals) % len(specs)
			if err := newEnv(u).Build(specs[j]).Render(context.Background(), bw); err != nil {
				rc.Fail("C10/later-render-error", "render %d of %s into a caller-owned bufio.Writer (size %d): %v", i, specs[j], size, err)
				break
			}
			want = append(want, docs[j]...)
			if !after("render into a caller-owned bufio.Writer") {
				break
			}
		}
		if rc.Failed() {
			break
		}
		if err := bw.Flush(); err != nil || string(cw.got) != string(want) {
			rc.Fail("C10/caller-owned-writer-lost-output", "three renders into one caller-owned bufio.Writer (size %d, render buffer %d) with other renders in between: after Flush (err=%v) the writer holds %d bytes, want %d: %q", size, kn.BufSize, err, len(cw.got), len(want), kernel.Short(string(cw.got), 200))
		}
		evals += 3
		k.Count("probe_caller_owned_bufio_writer_sequences", 1)
	}
	k.Count("evaluations", int64(evals))
	k.Count("fault_points", int64(fired))
	g, r, f := simsync.PoolCounters()
	k.Count("pool_gets", g)
	k.Count("pool_reused", r)
	k.Count("pool_fresh", f)
	k.Logf("spec %s knobs %+v doc %d points %d offsets %d", spec, kn, len(D), npoints, len(offs))
	if lu := takeLateUse(); lu != "" {
		rc.Fail("C10/writer-used-after-its-render-returned", "%s", lu)
	}
	rc.Finish(k)
	rc.Res.Nontriv = fired > 0
	rc.Res.Key = fmt.Sprintf("%x/%+v", spec.Hash(), kn)
	if rc.WantSample || rc.Failed() {
		rc.Res.Sample = map[string]any{"spec": spec.String(), "knobs": fmt.Sprintf("%+v", kn), "doc_bytes": len(D), "expr_and_nested_fault_points": npoints,
			"writer_offsets": len(offs), "faulted_renders": evals, "document": kernel.Short(string(D), 300)}
	}
}

// writerOffsets: every offset for short documents; otherwise the first and last 64,
// every underlying-write boundary +-1 and a stride sample.
func writerOffsets(t *kernel.Tape, n int, starts []int, allUpTo int) []int {
	if n == 0 {
		return nil
	}
	set := map[int]bool{}
	add := func(x int) {
		if x >= 0 && x < n {
			set[x] = true
		}
	}
	if n <= allUpTo {
		for i := 0; i < n; i++ {
			add(i)
		}
	} else {
		for i := 0; i < 64; i++ {
			add(i)
			add(n - 1 - i)
		}
		for _, s := range starts {
			add(s - 1)
			add(s)
			add(s + 1)
		}
		stride := n/97 + 1
		off := t.Choose(stride, "stride-offset")
		for i := off; i < n; i += stride {
			add(i)
		}
	}
	out := make([]int, 0, len(set))
	for x := range set {
		out = append(out, x)
	}
	sort.Ints(out)
	return out
}
