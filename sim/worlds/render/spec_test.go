package render

import (
	"bufio"
	"bytes"
	"context"
	"errors"
	"fmt"
	"hash/fnv"
	"io"
	"runtime"
	"strings"
	"time"

	"github.com/a-h/templ"
	"github.com/a-h/templ/zzverif/kernel"
	"github.com/a-h/templ/zzverif/shim/simsync"
	simatomic "github.com/a-h/templ/zzverif/shim/simsync/atomic"
	"github.com/a-h/templ/zzverif/worlds/render/corpus"
)

// Node is one node of a spec: a component tree assembled from the combinator
// templates (real generated code) and a few hand-written components.
type Node struct {
	K    string  `json:"k"`
	S    string  `json:"s,omitempty"`
	N    int     `json:"n,omitempty"`
	B    bool    `json:"b,omitempty"`
	M    int     `json:"m,omitempty"` // shape instances: the condition bits
	Kids []*Node `json:"kids,omitempty"`
}

func (n *Node) String() string {
	var sb strings.Builder
	n.write(&sb)
	return sb.String()
}

func (n *Node) write(sb *strings.Builder) {
	sb.WriteString(n.K)
	if n.S != "" || n.N != 0 || n.B {
		fmt.Fprintf(sb, "[%q,%d,%v]", n.S, n.N, n.B)
	}
	if n.K == "shape" {
		fmt.Fprintf(sb, "{conds %v: %s}", shapeConds(n.M), describeShape(shapeASTs[n.N%len(shapeASTs)]))
	}
	if len(n.Kids) > 0 {
		sb.WriteString("(")
		for i, k := range n.Kids {
			if i > 0 {
				sb.WriteString(" ")
			}
			k.write(sb)
		}
		sb.WriteString(")")
	}
}

func (n *Node) Hash() uint64 {
	h := fnv.New64a()
	h.Write([]byte(n.String()))
	return h.Sum64()
}

func (n *Node) Size() int {
	s := 1
	for _, k := range n.Kids {
		s += k.Size()
	}
	return s
}

var errInjected = errors.New("sim: injected expression failure")
var errNested = errors.New("sim: injected nested component failure")

// Universe holds the things renders of one run share: once handles, script and css
// values. They are package-level state in real programs.
type Universe struct {
	Onces []*templ.OnceHandle
}

func newUniverse(nOnce int) *Universe {
	u := &Universe{}
	for i := 0; i < nOnce; i++ {
		if i == 0 {
			u.Onces = append(u.Onces, templ.NewOnceHandle())
		} else {
			// handles that were declared, not constructed (var h templ.OnceHandle): distinct
			// variables are distinct handles
			u.Onces = append(u.Onces, &templ.OnceHandle{})
		}
	}
	return u
}

// settleGoroutines waits, bounded, until the goroutine count is back at n: goroutines that a
// cancellation started in the code under test get the chance to finish.
func settleGoroutines(n int) {
	for i := 0; i < 200; i++ {
		runtime.Gosched()
		if i >= 2 && runtime.NumGoroutine() <= n {
			return
		}
		if i >= 20 {
			time.Sleep(20 * time.Microsecond)
		}
	}
}

// waitCancelAftermath is for cancellations issued by the scheduler itself.
func waitCancelAftermath() {
	for i := 0; i < 40; i++ {
		runtime.Gosched()
	}
	time.Sleep(200 * time.Microsecond)
}

// lockAware tells the lock shim about the kernel: a task that waits for a lock of the code
// under test is neither running nor parked, and the unlocker makes it running again.
func lockAware(k *kernel.Kernel) func() {
	simsync.SetBlockHooks(&simsync.BlockHooks{Begin: k.BlockBegin, Resume: k.BlockResume})
	// every atomic operation of the code under test is a seam for named tasks
	simatomic.SetYield(func(op string) { k.YieldCurrent("atomic", op) })
	return func() { simsync.SetBlockHooks(nil); simatomic.SetYield(nil) }
}

// picker chooses the task to release. Uniform choice alone makes long starvation of one
// task (held at a seam while another runs through many steps) exponentially unlikely, and
// that is the shape many lost-update bugs need; so the discipline itself is drawn per run:
// uniform, sticky (the task that ran last keeps running) or starving (one task is held back).
type picker struct {
	mode   int
	last   string
	victim string
}

func newPicker(t *kernel.Tape) *picker {
	return &picker{mode: []int{0, 0, 1, 2}[t.Choose(4, "sched-discipline")]}
}

func (p *picker) pick(t *kernel.Tape, ps []*kernel.Parked) int {
	uniform := func() int { return t.Choose(len(ps), "sched") }
	i := -1
	switch p.mode {
	case 1:
		if p.last != "" && t.Chance(7, 8, "stay") {
			for j, q := range ps {
				if q.Name == p.last {
					i = j
				}
			}
		}
	case 2:
		if p.victim == "" && t.Chance(1, 6, "choose-victim") {
			p.victim = ps[t.Choose(len(ps), "victim")].Name
		} else if p.victim != "" && t.Chance(1, 24, "free-victim") {
			p.victim = ""
		}
		if p.victim != "" {
			var others []int
			for j, q := range ps {
				if q.Name != p.victim {
					others = append(others, j)
				}
			}
			if len(others) > 0 {
				i = others[t.Choose(len(others), "sched-others")]
			}
		}
	}
	if i < 0 {
		i = uniform()
	}
	p.last = ps[i].Name
	return i
}

// Env is the per-render environment of the simulated expression bodies.
type Env struct {
	U         *Universe
	points    int    // fault points reached so far (expressions + hand-written components)
	FailAt    int    // fault point to fail (-1 none)
	CancelAt  int    // fault point at which the context is cancelled (-1 none)
	Cancel    func() // cancels the render's context
	FailedK   string // key of the expression that was failed ("Text.f")
	Fired     string // "expr" | "nested" | ""
	Hook      func(kind, key string)
	Cancelled bool // the context was cancelled at a fault point of this render
	Static    bool // shared between tasks: no counters, no faults
	// C12: universe of scripts/css, node extensions, and the log of rendered uses.
	C12  *c12u
	Ext  map[*Node]*nodeExt
	Uses []useRec
}

func newEnv(u *Universe) *Env {
	return &Env{U: u, FailAt: -1, CancelAt: -1, C12: defaultC12, Ext: genUses}
}

// defaultC12 is the script/css universe of worlds that mix uses into general trees.
var defaultC12 *c12u

func (e *Env) point(kind, key string) bool {
	if e.Static {
		return false
	}
	i := e.points
	e.points++
	if e.Hook != nil {
		e.Hook(kind, key)
	}
	if i == e.CancelAt && e.Cancel != nil {
		// Cancellation may start goroutines in the code under test (context.AfterFunc and the
		// like). They are outside the scheduler, so they are given the chance to finish before
		// this task goes on: wait, bounded, until the goroutine count is back where it was. The
		// unchanged tree starts none, so nothing is waited for there.
		before := runtime.NumGoroutine()
		e.Cancel()
		e.Cancelled = true
		settleGoroutines(before)
		if e.Hook != nil {
			e.Hook("cancelled", key)
		}
	}
	if i == e.FailAt {
		e.FailedK = key
		e.Fired = kind
		return true
	}
	return false
}

func (e *Env) strExpr(key, val string) func() (string, error) {
	return func() (string, error) {
		if e.point("expr", key) {
			return "", errInjected
		}
		return val, nil
	}
}

// hwFail is a hand-written component that writes data and can fail half way.
func (e *Env) hwFail(data string) templ.Component {
	return templ.ComponentFunc(func(ctx context.Context, w io.Writer) error {
		if e.point("nested", "hwFail") {
			if _, err := io.WriteString(w, data[:len(data)/2]); err != nil {
				return err
			}
			return errNested
		}
		_, err := io.WriteString(w, data)
		return err
	})
}

// hwWrap swaps the writer, so a generated child cannot reuse the parent's buffer.
func hwWrap(kid templ.Component, size int) templ.Component {
	return templ.ComponentFunc(func(ctx context.Context, w io.Writer) error {
		bw := bufio.NewWriterSize(w, size)
		err := kid.Render(ctx, bw)
		if ferr := bw.Flush(); err == nil {
			err = ferr
		}
		return err
	})
}

// hwChildren is a hand-written callee that renders its children n times.
func hwChildren(id string, times int) templ.Component {
	return templ.ComponentFunc(func(ctx context.Context, w io.Writer) error {
		ch := templ.GetChildren(ctx)
		ctx = templ.ClearChildren(ctx)
		if _, err := io.WriteString(w, `<w id="`+id+`">`); err != nil {
			return err
		}
		for i := 0; i < times; i++ {
			if err := ch.Render(ctx, w); err != nil {
				return err
			}
		}
		_, err := io.WriteString(w, `</w>`)
		return err
	})
}

// hwChildrenBuf is a hand-written callee that renders its children into a writer of its own
// and copies the result out (so the children never see the parent's buffer).
func hwChildrenBuf(id string) templ.Component {
	return templ.ComponentFunc(func(ctx context.Context, w io.Writer) error {
		ch := templ.GetChildren(ctx)
		ctx = templ.ClearChildren(ctx)
		var own bytes.Buffer
		if err := ch.Render(ctx, &own); err != nil {
			return err
		}
		_, err := io.WriteString(w, `<w id="`+id+`">`+own.String()+`</w>`)
		return err
	})
}

// hwToGoHTML renders kid through templ.ToGoHTML (the byte-buffer pool) and writes the result.
func hwToGoHTML(kid templ.Component) templ.Component {
	return templ.ComponentFunc(func(ctx context.Context, w io.Writer) error {
		h, err := templ.ToGoHTML(ctx, kid)
		if err != nil {
			return err
		}
		_, err = io.WriteString(w, string(h))
		return err
	})
}

// hwForward is a hand-written layer that is itself given a block (which it drops) and hands
// its own block on to inner with templ.WithChildren.
func hwForward(inner, block templ.Component) templ.Component {
	return templ.ComponentFunc(func(ctx context.Context, w io.Writer) error {
		return inner.Render(templ.WithChildren(ctx, block), w)
	})
}

// hwNonce is a hand-written layer that passes its context on with a nonce added.
func hwNonce(inner templ.Component) templ.Component {
	return templ.ComponentFunc(func(ctx context.Context, w io.Writer) error {
		return inner.Render(templ.WithNonce(ctx, "n0nce"), w)
	})
}

// hwClear is a hand-written layer that renders inner with its children cleared, the way the
// documentation shows (ctx = templ.ClearChildren(ctx)).
func hwClear(inner templ.Component) templ.Component {
	return templ.ComponentFunc(func(ctx context.Context, w io.Writer) error {
		ctx = templ.ClearChildren(ctx)
		return inner.Render(ctx, w)
	})
}

// hwFlush is a hand-written layer that renders templ.Flush with a block of its own into a
// writer that cannot be flushed (generated code always hands Flush a flushable buffer).
func hwFlush(body templ.Component) templ.Component {
	return templ.ComponentFunc(func(ctx context.Context, w io.Writer) error {
		return templ.Flush().Render(templ.WithChildren(ctx, body), struct{ io.Writer }{w})
	})
}

// hwForwardNil is a hand-written layer that is itself given a block (which it drops) and tells
// inner explicitly that it has no children: templ.WithChildren(ctx, nil).
func hwForwardNil(inner templ.Component) templ.Component {
	return templ.ComponentFunc(func(ctx context.Context, w io.Writer) error {
		return inner.Render(templ.WithChildren(ctx, nil), w)
	})
}

// hwTwice is a hand-written layer that renders inner twice with the context it was given (a
// page rendered once for its ETag and once for the response, a preview next to the result).
func hwTwice(inner templ.Component) templ.Component {
	return templ.ComponentFunc(func(ctx context.Context, w io.Writer) error {
		if err := inner.Render(ctx, w); err != nil {
			return err
		}
		return inner.Render(ctx, w)
	})
}

// hwIgnore is a hand-written callee that never looks at its children (like templ.Raw).
func hwIgnore(id string) templ.Component {
	return templ.ComponentFunc(func(ctx context.Context, w io.Writer) error {
		_, err := io.WriteString(w, `<w id="`+id+`"></w>`)
		return err
	})
}

func (e *Env) kids(n *Node) []templ.Component {
	out := make([]templ.Component, len(n.Kids))
	for i, k := range n.Kids {
		out[i] = e.Build(k)
	}
	return out
}

func (e *Env) kid(n *Node, i int) templ.Component {
	if i < len(n.Kids) {
		return e.Build(n.Kids[i])
	}
	return templ.NopComponent
}

var exprValues = []string{"plain", "", "<b>&\"'", "a < b && c > d", "ünï©ødé ✓ 日本", "line1\nline2\ttab", `back\slash "q"`, "</script><script>alert(1)</script>", "x"}

// Build turns a node into a component bound to this environment.
func (e *Env) Build(n *Node) templ.Component {
	switch n.K {
	case "seq":
		return corpus.Seq(e.kids(n))
	case "lit":
		return corpus.Lit()
	case "lit0":
		return corpus.LitEmpty()
	case "lit100":
		return corpus.Lit100()
	case "lit4000":
		return corpus.Lit4000()
	case "lit4090":
		return corpus.Lit4090()
	case "lit6000":
		return corpus.Lit6000()
	case "text":
		return corpus.Text(e.strExpr("Text.f", n.S))
	case "textmulti":
		g := e.strExpr("TextMulti.g", n.S)
		return corpus.TextMulti(e.strExpr("TextMulti.f", n.S), func(string) (string, error) { return g() })
	case "attr":
		return corpus.Attr(e.strExpr("Attr.f", n.S))
	case "el":
		return corpus.El(n.S, e.kid(n, 0))
	case "ifelse":
		return corpus.IfElse(n.B, e.kid(n, 0), e.kid(n, 1))
	case "switch":
		return corpus.Switch(n.N, e.kid(n, 0), e.kid(n, 1))
	case "boolattr":
		return corpus.BoolAttr(n.B)
	case "spread":
		return corpus.Spread(templ.Attributes{"data-a": n.S, "hidden": n.B, "title": &n.S})
	case "condattr":
		return corpus.CondAttr(n.B, e.strExpr("CondAttr.f", n.S))
	case "href":
		return corpus.Href(templ.URL("/p?q=" + n.S))
	case "style":
		return corpus.Style(e.strExpr("Style.f", "color: red; width: "+fmt.Sprint(n.N)+"px"))
	case "styleslice":
		return corpus.StyleSlice(e.strExpr("StyleSlice.f", "width: "+fmt.Sprint(n.N)+"px"), e.strExpr("StyleSlice.g", "height: 2px"))
	case "comment":
		return corpus.Comment()
	case "rawel":
		return corpus.RawEl()
	case "scriptexpr":
		return corpus.ScriptExpr(e.strExpr("ScriptExpr.f1", n.S), e.strExpr("ScriptExpr.f2", n.S))
	case "callnoblock":
		return corpus.CallNoBlock(e.kid(n, 0))
	case "callblock":
		return corpus.CallBlock(e.kid(n, 0), e.kid(n, 1))
	case "callblockthen":
		return corpus.CallBlockThen(e.kid(n, 0), e.kid(n, 1), e.kid(n, 2))
	case "slot":
		return corpus.Slot(n.S)
	case "slottwice":
		return corpus.SlotTwice(n.S)
	case "noslot":
		return corpus.NoSlot(n.S)
	case "passdown":
		return corpus.PassDown(n.S, e.kid(n, 0))
	case "passdowntwice":
		return corpus.PassDownTwice(n.S, e.kid(n, 0))
	case "slotaround":
		return corpus.SlotAround(n.S, e.kid(n, 0), e.kid(n, 1))
	case "block":
		return corpus.Block(n.S)
	case "oncebody":
		h := n.N % len(e.U.Onces)
		c := corpus.OnceBody(e.U.Onces[h], e.kid(n, 0))
		if e.C12 != nil {
			return e.counted(useRec{Kind: "oncebody", Handle: h}, c)
		}
		return c
	case "oncemark":
		h := n.N % len(e.U.Onces)
		c := corpus.OnceMark(e.U.Onces[h], n.S)
		if e.C12 != nil {
			return e.counted(useRec{Kind: "oncemark", Handle: h, Marker: n.S}, c)
		}
		return c
	case "oncewith": // block-less use of a handle created WithComponent
		h := n.N % len(e.U.Onces)
		if e.C12 == nil || !e.C12.OnceWith[h] {
			return corpus.Lit()
		}
		return e.counted(useRec{Kind: "oncewith", Handle: h}, e.U.Onces[h].Once())
	case "flush":
		return corpus.FlushBlock(e.kid(n, 0))
	case "oncecallee":
		return e.U.Onces[n.N%len(e.U.Onces)].Once()
	case "flushcallee":
		return templ.Flush()
	case "join":
		return corpus.JoinOf(e.kids(n))
	case "gojoin":
		return templ.Join(e.kids(n)...)
	case "raw":
		return templ.Raw("<raw>" + n.S + "</raw>")
	case "hwfail":
		return e.hwFail("<hw>" + n.S + strings.Repeat("z", n.N) + "</hw>")
	case "hwwrap":
		return hwWrap(e.kid(n, 0), 8+n.N)
	case "hwchildren":
		return hwChildren(n.S, n.N)
	case "hwignore":
		return hwIgnore(n.S)
	case "hwchildrenbuf":
		return hwChildrenBuf(n.S)
	case "togohtml":
		return hwToGoHTML(e.kid(n, 0))
	case "jsonscript":
		return templ.JSONScript("j"+fmt.Sprint(n.N), map[string]any{"v": n.S, "n": n.N, "list": []string{n.S, "x"}})
	case "hwforward":
		return hwForward(e.kid(n, 0), e.kid(n, 1))
	case "hwnonce":
		return hwNonce(e.kid(n, 0))
	case "hwclear":
		return hwClear(e.kid(n, 0))
	case "rawscript", "usescript", "onclick", "ontwo", "oncond", "onhx", "classof", "classtwo", "classcond", "ashape", "bshape":
		return e.buildC12(n)
	case "shape":
		return e.buildShape(n)
	case "hwflush":
		return hwFlush(e.kid(n, 0))
	case "hwtwice":
		return hwTwice(e.kid(n, 0))
	case "hwforwardnil":
		return hwForwardNil(e.kid(n, 0))
	}
	panic("unknown node kind " + n.K)
}

// genUses, when set, lets genSpec mix script / css / once uses into general trees (C14).
var genUses map[*Node]*nodeExt

// genSpec draws a general render tree (C10, C11, C14).
func genSpec(t *kernel.Tape, budget *int, depth int) *Node {
	*budget--
	if genUses != nil && t.Chance(1, 4, "use-leaf") {
		n := genUseLeaf(t, genUses, 3)
		if n.K == "oncewith" {
			n.K = "lit"
		}
		return n
	}
	leaf := []string{"lit", "lit0", "lit100", "text", "textmulti", "attr", "boolattr", "spread", "condattr", "href", "style", "styleslice", "comment", "rawel", "scriptexpr", "raw", "hwfail", "block", "noslot", "jsonscript"}
	big := []string{"lit4000", "lit4090", "lit6000"}
	inner := []string{"seq", "el", "ifelse", "switch", "callnoblock", "callblock", "passdownblock", "flush", "join", "gojoin", "hwwrap", "oncebody", "slotcall", "slottwicecall", "togohtml", "ownbufcall", "shape", "shape"}
	mk := func(k string) *Node {
		n := &Node{K: k}
		switch k {
		case "text", "textmulti", "attr", "condattr", "scriptexpr", "raw", "spread", "href", "block", "jsonscript":
			n.S = exprValues[t.Choose(len(exprValues), "val")]
			n.B = t.Bool("b")
		case "boolattr":
			n.B = t.Bool("b")
		case "style", "styleslice":
			n.N = t.Choose(50, "n")
		case "hwfail":
			n.S = exprValues[t.Choose(len(exprValues), "val")]
			n.N = t.Choose(40, "n")
		case "noslot":
			n.S = "ns"
		}
		if k == "jsonscript" {
			n.N = t.Choose(40, "n")
		}
		return n
	}
	leafP := 2
	if depth < 2 {
		leafP = 1
	}
	if depth >= 5 || *budget <= 0 || t.Chance(leafP, 6, "leaf") {
		if t.Chance(1, 12, "big") {
			return mk(big[t.Choose(len(big), "bigkind")])
		}
		return mk(leaf[t.Choose(len(leaf), "leafkind")])
	}
	k := inner[t.Choose(len(inner), "innerkind")]
	sub := func() *Node { return genSpec(t, budget, depth+1) }
	switch k {
	case "seq", "join", "gojoin":
		n := &Node{K: k}
		c := t.Range(1, 4, "nkids")
		for i := 0; i < c; i++ {
			n.Kids = append(n.Kids, sub())
		}
		return n
	case "el":
		return &Node{K: "el", S: "e" + fmt.Sprint(t.Choose(100, "id")), Kids: []*Node{sub()}}
	case "ifelse":
		return &Node{K: "ifelse", B: t.Bool("cond"), Kids: []*Node{sub(), sub()}}
	case "switch":
		return &Node{K: "switch", N: t.Choose(3, "v"), Kids: []*Node{sub(), sub()}}
	case "callnoblock":
		return &Node{K: "callnoblock", Kids: []*Node{sub()}}
	case "callblock":
		callee := &Node{K: []string{"slot", "slottwice", "noslot", "hwchildren"}[t.Choose(4, "callee")], S: "c" + fmt.Sprint(t.Choose(100, "id")), N: 1}
		return &Node{K: "callblock", Kids: []*Node{callee, sub()}}
	case "slotcall":
		return &Node{K: "callblock", Kids: []*Node{{K: "slot", S: "s" + fmt.Sprint(t.Choose(100, "id"))}, sub()}}
	case "slottwicecall":
		return &Node{K: "callblock", Kids: []*Node{{K: "slottwice", S: "t" + fmt.Sprint(t.Choose(100, "id"))}, sub()}}
	case "passdownblock":
		return &Node{K: "callblock", Kids: []*Node{{K: "passdown", S: "p", Kids: []*Node{{K: "slot", S: "pi"}}}, sub()}}
	case "flush":
		return &Node{K: "flush", Kids: []*Node{sub()}}
	case "togohtml":
		return &Node{K: "togohtml", Kids: []*Node{sub()}}
	case "shape": // a member of the seeded template family, called with or without a block
		si := t.Choose(len(shapeASTs), "shape-pre")
		fan := max(1, shapeFan(shapeASTs[si]))
		if genMult*fan > 32 {
			return mk("lit") // documents multiply through nested loops and repeated blocks
		}
		old := genMult
		genMult *= fan
		sh := genShape(t, "sh"+fmt.Sprint(t.Choose(100, "id")), sub)
		sh.N = si
		genMult = old
		if t.Bool("shape-with-block") {
			return &Node{K: "callblock", Kids: []*Node{sh, sub()}}
		}
		return sh
	case "ownbufcall":
		return &Node{K: "callblock", Kids: []*Node{{K: "hwchildrenbuf", S: "o" + fmt.Sprint(t.Choose(100, "id"))}, sub()}}
	case "hwwrap":
		return &Node{K: "hwwrap", N: t.Choose(64, "wrapsize"), Kids: []*Node{sub()}}
	case "oncebody":
		return &Node{K: "oncebody", N: t.Choose(3, "handle"), Kids: []*Node{sub()}}
	}
	return mk("lit")
}
