package render

import (
	"encoding/json"
	"fmt"
	"strings"

	"github.com/a-h/templ"
	"github.com/a-h/templ/zzverif/kernel"
	"github.com/a-h/templ/zzverif/worlds/render/corpus"
)

// Seeded template families (sim/driver/shapes.py): the syntax trees of the templates that
// the check's own prep step wrote and had the working tree's generator compile. The worlds
// interpret the trees with their reference models.

type shNode struct {
	K    string    `json:"k"`
	I    int       `json:"i"`
	N    int       `json:"n"`
	Is   []int     `json:"is"`
	Ev   string    `json:"ev"`
	Body []*shNode `json:"body"`
	Then []*shNode `json:"then"`
	Else []*shNode `json:"else"`
}

var shapeASTs, ashapeASTs, bshapeASTs [][]*shNode

func init() {
	var f struct {
		Shapes  [][]*shNode `json:"shapes"`
		AShapes [][]*shNode `json:"ashapes"`
		BShapes [][]*shNode `json:"bshapes"`
	}
	if err := json.Unmarshal(corpus.ShapesJSON, &f); err != nil {
		panic("sim: shapes.json: " + err.Error())
	}
	shapeASTs, ashapeASTs, bshapeASTs = f.Shapes, f.AShapes, f.BShapes
	if len(shapeASTs) != len(corpus.Shapes) || len(ashapeASTs) != len(corpus.AShapes) || len(bshapeASTs) != len(corpus.BShapes) {
		panic("sim: shapes.json does not match the generated templates")
	}
}

// shapeFan bounds how many component renders one render of the shape body causes (loops
// double, a block may be rendered twice by its callee).
func shapeFan(ns []*shNode) int {
	f := 0
	for _, s := range ns {
		switch s.K {
		case "call", "legacycall", "children":
			f++
		case "callblock":
			f += 1 + 2*shapeFan(s.Body)
		case "if", "switch":
			f += max(shapeFan(s.Then), shapeFan(s.Else))
		case "for":
			f += 2 * shapeFan(s.Body)
		case "el", "once", "flush":
			f += shapeFan(s.Body)
		case "join":
			f += len(s.Is)
		}
	}
	return f
}

// genMult is the product of the fans of the shapes around the node being drawn (genSpec).
var genMult = 1

// A shape node of a spec: K "shape", N the family member, S the instance id, M the three
// condition bits, Kids the three component parameters.
func shapeConds(m int) []bool { return []bool{m&1 != 0, m&2 != 0, m&4 != 0} }

// shapeHandles are the once handles every shape instance is given.
func shapeHandleIdx(nOnce int) [2]int { return [2]int{0, 1 % nOnce} }

func (e *Env) buildShape(n *Node) templ.Component {
	hi := shapeHandleIdx(len(e.U.Onces))
	return corpus.Shapes[n.N%len(corpus.Shapes)](n.S, e.kid(n, 0), e.kid(n, 1), e.kid(n, 2), shapeConds(n.M), []*templ.OnceHandle{e.U.Onces[hi[0]], e.U.Onces[hi[1]]})
}

// genShape draws a shape instance; param draws its component parameters.
func genShape(t *kernel.Tape, id string, param func() *Node) *Node {
	n := &Node{K: "shape", N: t.Choose(len(corpus.Shapes), "shape"), S: id, M: t.Choose(8, "conds")}
	for i := 0; i < 3; i++ {
		n.Kids = append(n.Kids, param())
	}
	return n
}

// evalShape is the lexical-scoping model of a shape body: ch are the children of the shape
// instance n itself, and a block written inside the body is evaluated right here, in this
// scope, whichever callee ends up rendering it.
func (m *c13model) evalShape(ns []*shNode, n *Node, ch thunk, nOnce int) []string {
	var out []string
	conds := shapeConds(n.M)
	param := func(i int) *Node {
		if i < len(n.Kids) {
			return n.Kids[i]
		}
		return &Node{K: "seq"}
	}
	for _, s := range ns {
		s := s
		if m.work--; m.work < 0 {
			panic(tooBig{})
		}
		switch s.K {
		case "mark":
			out = append(out, fmt.Sprintf("blk:%s-m%d", n.S, s.N))
		case "children":
			if ch != nil {
				out = append(out, ch()...)
			}
		case "call", "legacycall":
			out = append(out, m.eval(param(s.I), nil)...)
		case "callblock":
			out = append(out, m.eval(param(s.I), func() []string { return m.evalShape(s.Body, n, ch, nOnce) })...)
		case "if":
			if conds[s.I] {
				out = append(out, m.evalShape(s.Then, n, ch, nOnce)...)
			} else {
				out = append(out, m.evalShape(s.Else, n, ch, nOnce)...)
			}
		case "switch":
			if conds[s.I] {
				out = append(out, m.evalShape(s.Then, n, ch, nOnce)...)
			} else {
				out = append(out, m.evalShape(s.Else, n, ch, nOnce)...)
			}
		case "for":
			for i := 0; i < 2; i++ {
				out = append(out, m.evalShape(s.Body, n, ch, nOnce)...)
			}
		case "el":
			out = append(out, fmt.Sprintf("div:%s-e%d", n.S, s.N))
			out = append(out, m.evalShape(s.Body, n, ch, nOnce)...)
			out = append(out, "/div")
		case "once":
			m.onceBlock = true
			h := shapeHandleIdx(nOnce)[s.I]
			if !m.seen[h] {
				m.seen[h] = true
				out = append(out, m.evalShape(s.Body, n, ch, nOnce)...)
			}
		case "flush":
			out = append(out, m.evalShape(s.Body, n, ch, nOnce)...)
		case "join":
			for _, i := range s.Is {
				out = append(out, m.eval(param(i), nil)...)
			}
		default:
			panic("shape node " + s.K)
		}
	}
	return out
}

// describeShape renders a shape body as templ-like text for reports.
func describeShape(ns []*shNode) string {
	var parts []string
	for _, s := range ns {
		switch s.K {
		case "mark":
			parts = append(parts, fmt.Sprintf("m%d", s.N))
		case "children":
			parts = append(parts, "{children...}")
		case "call":
			parts = append(parts, fmt.Sprintf("@p[%d]", s.I))
		case "legacycall":
			parts = append(parts, fmt.Sprintf("{! p[%d] }", s.I))
		case "callblock":
			parts = append(parts, fmt.Sprintf("@p[%d]{ %s }", s.I, describeShape(s.Body)))
		case "if", "switch":
			parts = append(parts, fmt.Sprintf("%s c[%d]{ %s }else{ %s }", s.K, s.I, describeShape(s.Then), describeShape(s.Else)))
		case "for":
			parts = append(parts, fmt.Sprintf("for2{ %s }", describeShape(s.Body)))
		case "el":
			parts = append(parts, fmt.Sprintf("<div e%d>%s</div>", s.N, describeShape(s.Body)))
		case "once":
			parts = append(parts, fmt.Sprintf("@h[%d].Once(){ %s }", s.I, describeShape(s.Body)))
		case "flush":
			parts = append(parts, fmt.Sprintf("@Flush(){ %s }", describeShape(s.Body)))
		case "join":
			parts = append(parts, fmt.Sprintf("@Join(p%v)", s.Is))
		case "btn":
			parts = append(parts, fmt.Sprintf("<button %s={s[%d]}>", s.Ev, s.I))
		case "const":
			parts = append(parts, fmt.Sprintf("data-c%d", s.N))
		case "on":
			parts = append(parts, fmt.Sprintf("%s={s[%d]}", s.Ev, s.I))
		case "class":
			parts = append(parts, fmt.Sprintf("class={k%v}", s.Is))
		case "cond":
			parts = append(parts, fmt.Sprintf("if c[%d]{ %s }else{ %s }", s.I, describeShape(s.Then), describeShape(s.Else)))
		}
	}
	return strings.Join(parts, " ")
}
