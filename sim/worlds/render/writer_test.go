package render

import (
	"errors"
	"fmt"
	"io"
	"sync/atomic"
)

// lateUse holds the first use of a writer after the render it was handed to had returned
// (in this process): a render may only ever touch its own writer.
var lateUse atomic.Pointer[string]

// takeLateUse reports and clears it.
func takeLateUse() string {
	if s := lateUse.Swap(nil); s != nil {
		return *s
	}
	return ""
}

var errWriter = errors.New("sim: injected writer failure")

// Fault is one writer fault: the Write call that would deliver byte At fails.
type Fault struct {
	Kind string // "", "short" (n<len, err), "zero" (0, err), "shortnil" (n<len, nil)
	At   int
}

// core is the simulated io.Writer. Wrappers below give it different method sets.
type core struct {
	got    []byte
	starts []int // offset at which each Write call began
	fault  Fault
	sticky bool // after the fault has fired, every later Write fails too
	fired  bool
	calls  int
	// flushes counts Flush calls of the http.Flusher variants.
	flushes int
	closed  int
	// park, when set, is called before a Write is processed (interleaving seam).
	park func(kind string, n int)
	// limit, when set with park, is the output size beyond which the render is considered
	// runaway: the task then parks under kind "runaway" and is never released.
	limit int
	// done is set when the render this writer was handed to has returned.
	done bool
}

func (c *core) late(op string, n int) bool {
	if !c.done {
		return false
	}
	s := fmt.Sprintf("%s(%d bytes) on a writer whose render had already returned (it holds %d bytes from that render)", op, n, len(c.got))
	lateUse.CompareAndSwap(nil, &s)
	return true
}

func (c *core) Write(p []byte) (int, error) {
	if c.late("Write", len(p)) {
		return len(p), nil
	}
	if c.park != nil {
		if c.limit > 0 && len(c.got) > c.limit {
			c.park("runaway", len(c.got))
		}
		c.park("write", len(p))
	}
	c.calls++
	if len(c.got) > 16<<20 {
		panic("sim: runaway output (more than 16 MB written by one render)")
	}
	off := len(c.got)
	c.starts = append(c.starts, off)
	if c.fired && c.sticky && c.fault.Kind != "shortnil" {
		return 0, errWriter
	}
	if c.fault.Kind != "" && !c.fired && off+len(p) > c.fault.At && c.fault.At >= off {
		c.fired = true
		switch c.fault.Kind {
		case "zero":
			return 0, errWriter
		case "short":
			n := c.fault.At - off
			c.got = append(c.got, p[:n]...)
			return n, errWriter
		case "shortnil":
			n := c.fault.At - off
			c.got = append(c.got, p[:n]...)
			return n, nil
		}
	}
	c.got = append(c.got, p...)
	return len(p), nil
}

type plainW struct{ *core }

type flushW struct{ *core }

func (f flushW) Flush() {
	if f.late("Flush", 0) {
		return
	}
	if f.park != nil {
		f.park("flush", 0)
	}
	f.flushes++
}

type closeW struct{ *core }

func (c closeW) Close() error { c.closed++; return nil }

func (c *core) as(kind int) io.Writer {
	switch kind {
	case 1:
		return flushW{c}
	case 2:
		return closeW{c}
	}
	return plainW{c}
}

func isPrefix(got, full []byte) bool {
	return len(got) <= len(full) && string(full[:len(got)]) == string(got)
}
