package render

import (
	"bytes"
	"context"
	"errors"
	"fmt"
	"io"
	"net/http"
	"net/http/httptest"
	"strings"

	"github.com/a-h/templ"
	"github.com/a-h/templ/zzverif/kernel"
	"github.com/a-h/templ/zzverif/shim/simsync"
	"github.com/a-h/templ/zzverif/worlds/render/corpus"
)

var errChunk = errors.New("sim: component failed after k chunks")

// recorder is the simulated http.ResponseWriter: it logs the order of operations and
// snapshots the headers when the response is committed, as net/http does.
type recorder struct {
	hdr       http.Header
	committed bool
	status    int
	sent      http.Header
	body      bytes.Buffer
	ops       []string
	phase     string // "" before the error handler runs, "eh" inside it
	superfl   int
	// failWrite: the n-th Write (0-based) accepts half of its bytes and reports an error (the
	// client's connection hiccups); later writes go through. -1: never.
	failWrite int
	writes    int
	wfired    bool
}

func newRecorder() *recorder { return &recorder{hdr: http.Header{}, failWrite: -1} }

var errClientWrite = errors.New("sim: write to the client failed")

func (r *recorder) Header() http.Header { return r.hdr }
func (r *recorder) commit(code int) {
	if r.committed {
		return
	}
	r.committed = true
	r.status = code
	r.sent = r.hdr.Clone()
}
func (r *recorder) WriteHeader(code int) {
	r.ops = append(r.ops, fmt.Sprintf("%sWriteHeader(%d)", r.phase, code))
	if r.committed {
		r.superfl++
		return
	}
	r.commit(code)
}
func (r *recorder) Write(p []byte) (int, error) {
	r.ops = append(r.ops, fmt.Sprintf("%sWrite(%d)", r.phase, len(p)))
	r.commit(200)
	r.writes++
	if r.writes-1 == r.failWrite {
		r.wfired = true
		r.body.Write(p[:len(p)/2])
		return len(p) / 2, errClientWrite
	}
	r.body.Write(p)
	return len(p), nil
}

// chunkComp writes its chunks and fails before chunk FailAt (FailAt > len means success).
type chunkComp struct {
	chunks [][]byte
	failAt int
	// panics: the failure is a panic (a nil view model, an index out of range), not an error
	panics bool
	// between, when set, is called before every chunk (a seam: the component may be held there)
	between func(i int)
}

func (c chunkComp) Render(ctx context.Context, w io.Writer) error {
	for i, ch := range c.chunks {
		if c.between != nil {
			c.between(i)
		}
		if i == c.failAt {
			if c.panics {
				panic(errChunk)
			}
			return errChunk
		}
		if _, err := w.Write(ch); err != nil {
			return err
		}
	}
	if c.failAt == len(c.chunks) {
		if c.panics {
			panic(errChunk)
		}
		return errChunk
	}
	return nil
}

type hconf struct {
	Status int
	CT     string
	EH     int // 0 unset, 1 status+body, 2 body only, 3 nothing, 4 headers+status+body
	Stream bool
}

const ehBody = "custom error page: something went wrong"

func (c hconf) handler(comp templ.Component, rec **recorder) *templ.ComponentHandler {
	var opts []func(*templ.ComponentHandler)
	if c.Status != 0 {
		opts = append(opts, templ.WithStatus(c.Status))
	}
	if c.CT != "" {
		opts = append(opts, templ.WithContentType(c.CT))
	}
	if c.EH != 0 {
		eh := c.EH
		opts = append(opts, templ.WithErrorHandler(func(r *http.Request, err error) http.Handler {
			if eh == 5 {
				return nil // an error handler that has nothing to answer with
			}
			return http.HandlerFunc(func(w http.ResponseWriter, r *http.Request) {
				(*rec).phase = "eh:"
				defer func() { (*rec).phase = "after-eh:" }()
				switch eh {
				case 1:
					w.WriteHeader(http.StatusBadGateway)
					io.WriteString(w, ehBody)
				case 2:
					io.WriteString(w, ehBody)
				case 3:
				case 4:
					w.Header().Set("Content-Type", "text/x-error")
					w.Header().Set("X-Err", "1")
					w.WriteHeader(http.StatusTeapot)
					io.WriteString(w, ehBody)
				}
			})
		}))
	}
	if c.Stream {
		opts = append(opts, templ.WithStreaming())
	}
	return templ.Handler(comp, opts...)
}

func c11World(rc *kernel.RunCtx) {
	t := rc.T
	k := kernel.New(t, kernel.M1, 1<<30)
	kernel.Active = k
	defer lockAware(k)()
	kn := drawKnobs(t, rc.Run)
	kn.install(t)
	defer simsync.SetPoolPolicy(nil, 0)
	u := newUniverse(2)

	// the component: a generated root around chunk writers and ordinary nodes
	nchunks := t.Range(0, rc.Param("max_chunks", 6), "nchunks")
	sizes := []int{0, 1, 7, 100, 600, 4096, 5000, 20000, 70000}
	var chunks [][]byte
	for i := 0; i < nchunks; i++ {
		n := sizes[t.Choose(len(sizes), "chunksize")]
		marker := fmt.Sprintf("[[chunk%d/%d:", i, rc.Run)
		b := []byte(marker + strings.Repeat(string(rune('a'+i)), n) + "]]")
		chunks = append(chunks, b)
	}
	wrapGenerated := t.Bool("generated-root")
	withTree := t.Chance(1, 3, "tree-before")
	var tree *Node
	if withTree {
		b := t.Range(1, 12, "budget")
		tree = genSpec(t, &b, 1)
	}
	panicky := false // set around the requests whose component fails by panicking
	mk := func(failAt int, env *Env) templ.Component {
		var c templ.Component = chunkComp{chunks: chunks, failAt: failAt, panics: panicky}
		if wrapGenerated || tree != nil {
			items := []templ.Component{}
			if tree != nil {
				items = append(items, env.Build(tree))
			}
			items = append(items, c, corpus.Lit())
			c = corpus.Seq(items)
		}
		return c
	}
	var docBuf bytes.Buffer
	if err := mk(len(chunks)+1, newEnv(u)).Render(context.Background(), &docBuf); err != nil {
		rc.Fail("C11/clean-render-error", "clean render failed: %v", err)
		rc.Finish(k)
		return
	}
	D := docBuf.Bytes()
	// prefix of D delivered before failure at chunk j (streaming reference): everything up to chunk j
	prefixAt := func(j int) []byte {
		if len(chunks) == 0 || j >= len(chunks) {
			i := bytes.LastIndex(D, []byte("]]"))
			if len(chunks) == 0 || i < 0 {
				// no chunks: failure happens where the chunk component sits
				if tree != nil {
					var b bytes.Buffer
					_ = corpus.Seq([]templ.Component{newEnv(u).Build(tree)}).Render(context.Background(), &b)
					return b.Bytes()
				}
				return nil
			}
			return D[:i+2]
		}
		i := bytes.Index(D, chunks[j][:bytes.IndexByte(chunks[j], ':')+1])
		return D[:i]
	}

	statuses := []int{0, 200, 201, 404, 500}
	cts := []string{"", "text/plain; charset=utf-8", "application/xhtml+xml", "text/event-stream"}
	var defaultErrBody []byte
	evals, failedReqs, partials := 0, 0, 0
	for _, stream := range []bool{false, true} {
		for _, eh := range []int{0, 1, 2, 3, 4} {
			for _, st := range statuses {
				for _, ct := range cts {
					if rc.Failed() {
						break
					}
					conf := hconf{Status: st, CT: ct, EH: eh, Stream: stream}
					wantCT := ct
					if wantCT == "" {
						wantCT = "text/html; charset=utf-8"
					}
					wantStatus := st
					if wantStatus == 0 {
						wantStatus = 200
					}
					var rec *recorder
					// one handler value and one pool for the whole request sequence
					var cur templ.Component
					h := conf.handler(templ.ComponentFunc(func(ctx context.Context, w io.Writer) error { return cur.Render(ctx, w) }), &rec)
					// every failure point once (order from the tape), success requests in between
					order := make([]int, 0, len(chunks)+3)
					for j := 0; j <= len(chunks)+1; j++ {
						order = append(order, j)
					}
					order = append(order, -1) // cancelled context
					rot := t.Choose(len(order), "rotate")
					order = append(order[rot:], order[:rot]...)
					for _, j := range order {
						rec = newRecorder()
						env := newEnv(u)
						req := httptest.NewRequest(http.MethodGet, "/page", nil)
						cancelled := false
						if j == -1 {
							if !(wrapGenerated || tree != nil) {
								continue // a hand-written root does not look at the context
							}
							ctx, cancel := context.WithCancel(context.Background())
							cancel()
							req = req.WithContext(ctx)
							cancelled = true
							cur = mk(len(chunks)+1, env)
						} else {
							cur = mk(j, env)
						}
						h.ServeHTTP(rec, req)
						nops := len(rec.ops)
						rec.commit(200) // net/http sends an implicit 200 when the handler returns without writing
						evals++
						if cl := rec.sent.Get("Content-Length"); cl != "" && cl != fmt.Sprint(rec.body.Len()) {
							// whatever the response is, a declared length that is not the length of what follows
							// makes the client drop or truncate it
							rc.Fail("C11/content-length-mismatch", "conf %+v fail-at %d: the response declares Content-Length %s and carries %d bytes (status %d, ops %v)", conf, j, cl, rec.body.Len(), rec.status, rec.ops)
							continue
						}
						fails := cancelled || j <= len(chunks)
						desc := fmt.Sprintf("conf %+v, %d chunks %v, fail-at %d (cancelled=%v), generatedRoot=%v tree=%v", conf, len(chunks), chunkSizes(chunks), j, cancelled, wrapGenerated, tree)
						body := rec.body.Bytes()
						if !fails {
							if rec.status != wantStatus || rec.sent.Get("Content-Type") != wantCT || !bytes.Equal(body, D) {
								rc.Fail("C11/success-response-wrong", "%s: got status %d ct %q body %q; want %d %q and the %d-byte document", desc, rec.status, rec.sent.Get("Content-Type"), kernel.Short(string(body), 200), wantStatus, wantCT, len(D))
							}
							continue
						}
						failedReqs++
						k.Count("fault_component_failure", 1)
						if stream {
							// The streaming configuration is the comparison arm: partial output is its
							// documented behaviour and the property demands nothing of it (how much of
							// the document was flushed before the failure is the component's business,
							// C10 only says "a prefix"). It is observed, not judged: the probe shows
							// that the injected failures do reach the client when nothing buffers.
							var pre []byte
							if !cancelled {
								pre = prefixAt(j)
							}
							l := 0
							for l < len(body) && l < len(D) && body[l] == D[l] {
								l++
							}
							if l > 0 {
								partials++
							}
							if len(pre) > 0 && l >= len(pre) {
								k.Count("probe_streaming_delivered_everything_rendered_before_the_failure", 1)
							}
							continue
						}
						// buffered: the error response and nothing else
						if bytes.Contains(body, []byte("[[chunk")) || (len(D) > 0 && len(body) > 0 && bytes.HasPrefix(D, body)) || containsDocPiece(body, D) {
							rc.Fail("C11/partial-document-sent", "%s: buffered handler sent document bytes in a failed response: status %d body %q ops %v", desc, rec.status, kernel.Short(string(body), 200), rec.ops)
							continue
						}
						for _, op := range rec.ops {
							if !strings.HasPrefix(op, "eh:") && eh != 0 {
								rc.Fail("C11/response-touched-outside-error-handler", "%s: ops %v", desc, rec.ops)
							}
						}
						switch eh {
						case 0:
							if rec.status != http.StatusInternalServerError {
								rc.Fail("C11/error-with-wrong-status", "%s: default error response has status %d, ops %v", desc, rec.status, rec.ops)
							}
							if len(body) == 0 {
								rc.Fail("C11/empty-default-error", "%s: default error response has no body", desc)
							}
							if defaultErrBody == nil {
								defaultErrBody = append([]byte{}, body...)
							} else if !bytes.Equal(defaultErrBody, body) {
								rc.Fail("C11/default-error-body-varies", "%s: default error body %q differs from %q", desc, body, defaultErrBody)
							}
						case 1:
							if rec.status != http.StatusBadGateway || string(body) != ehBody {
								rc.Fail("C11/error-handler-output-altered", "%s: got status %d body %q ops %v", desc, rec.status, body, rec.ops)
							}
						case 2:
							if string(body) != ehBody {
								rc.Fail("C11/error-handler-output-altered", "%s: got status %d body %q ops %v", desc, rec.status, body, rec.ops)
							}
						case 3:
							if nops != 0 || len(body) != 0 {
								rc.Fail("C11/error-handler-output-altered", "%s: handler wrote nothing but response has status %d body %q ops %v", desc, rec.status, body, rec.ops)
							}
						case 4:
							if rec.status != http.StatusTeapot || string(body) != ehBody || rec.sent.Get("Content-Type") != "text/x-error" || rec.sent.Get("X-Err") != "1" {
								rc.Fail("C11/error-handler-output-altered", "%s: got status %d headers %v body %q", desc, rec.status, rec.sent, body)
							}
						}
					}
				}
			}
		}
	}
	// the render succeeds but a write to the client fails (one-shot; later writes go through):
	// what the client has received by then is document bytes under the success status, so
	// nothing of an error response may follow it
	if !rc.Failed() && len(D) > 0 {
		for _, eh := range []int{0, 1, 2, 4} {
			conf := hconf{Status: statuses[t.Choose(len(statuses), "cw-status")], EH: eh}
			var rec *recorder
			h := conf.handler(mk(len(chunks)+1, newEnv(u)), &rec)
			rec = newRecorder()
			rec.failWrite = t.Choose(2, "cw-write")
			h.ServeHTTP(rec, httptest.NewRequest(http.MethodGet, "/page", nil))
			rec.commit(200)
			evals++
			if !rec.wfired {
				continue
			}
			k.Count("fault_client_write_failed_after_successful_render", 1)
			body := rec.body.Bytes()
			wantStatus := conf.Status
			if wantStatus == 0 {
				wantStatus = 200
			}
			errText := bytes.Contains(body, []byte(ehBody)) || (len(defaultErrBody) > 0 && bytes.Contains(body, bytes.TrimSpace(defaultErrBody)))
			if errText || rec.status != wantStatus {
				rc.Fail("C11/error-response-after-document-bytes", "conf %+v: the render succeeded and write %d to the client failed half way; the response is status %d (want %d) and its body mixes document bytes with an error response: %q ops %v", conf, rec.failWrite, rec.status, wantStatus, kernel.Short(string(body[max(0, len(body)-200):]), 200), rec.ops)
			}
		}
	}
	// the component fails by panicking after k chunks: the panic may travel up (net/http then
	// drops the connection: nothing was sent) or be turned into the error response; a partial
	// document under a success status is neither
	if !rc.Failed() {
		for _, eh := range []int{0, 1} {
			for j := 0; j <= len(chunks) && !rc.Failed(); j++ {
				conf := hconf{Status: statuses[t.Choose(len(statuses), "panic-status")], EH: eh}
				var rec *recorder
				panicky = true
				h := conf.handler(mk(j, newEnv(u)), &rec)
				panicky = false
				rec = newRecorder()
				escaped := func() (p any) {
					defer func() { p = recover() }()
					h.ServeHTTP(rec, httptest.NewRequest(http.MethodGet, "/page", nil))
					return nil
				}()
				evals++
				failedReqs++
				k.Count("fault_component_panic", 1)
				body := rec.body.Bytes()
				if escaped != nil {
					if len(rec.ops) != 0 || len(body) != 0 {
						rc.Fail("C11/partial-document-sent", "conf %+v: the component panicked before chunk %d and the panic travelled up, but the response had been touched: ops %v body %q", conf, j, rec.ops, kernel.Short(string(body), 200))
					}
					continue
				}
				rec.commit(200)
				if bytes.Contains(body, []byte("[[chunk")) || containsDocPiece(body, D) || (rec.status >= 200 && rec.status < 300 && eh == 0) {
					rc.Fail("C11/partial-document-sent", "conf %+v: the component panicked before chunk %d; the handler answered status %d with %q (ops %v)", conf, j, rec.status, kernel.Short(string(body), 200), rec.ops)
				}
			}
		}
	}
	// the configured error handler returns no handler at all: calling it may panic (nothing has
	// been sent then) or the default error response may go out; the half-rendered document under
	// a success status is neither
	if !rc.Failed() {
		for j := 0; j <= len(chunks) && !rc.Failed(); j++ {
			conf := hconf{Status: statuses[t.Choose(len(statuses), "nil-eh-status")], EH: 5}
			var rec *recorder
			h := conf.handler(mk(j, newEnv(u)), &rec)
			rec = newRecorder()
			escaped := func() (p any) {
				defer func() { p = recover() }()
				h.ServeHTTP(rec, httptest.NewRequest(http.MethodGet, "/page", nil))
				return nil
			}()
			evals++
			failedReqs++
			k.Count("fault_error_handler_returns_nil", 1)
			body := rec.body.Bytes()
			if escaped != nil {
				if len(body) != 0 {
					rc.Fail("C11/partial-document-sent", "conf %+v: the component failed before chunk %d, the error handler returned nil and the call panicked, but %d bytes had been sent: %q", conf, j, len(body), kernel.Short(string(body), 200))
				}
				continue
			}
			rec.commit(200)
			if bytes.Contains(body, []byte("[[chunk")) || containsDocPiece(body, D) || (rec.status >= 200 && rec.status < 300) {
				rc.Fail("C11/partial-document-sent", "conf %+v: the component failed before chunk %d and the error handler returned nil; the handler answered status %d with %q (ops %v)", conf, j, rec.status, kernel.Short(string(body), 200), rec.ops)
			}
		}
	}
	// a request whose client goes away while its component is in the middle of rendering (and
	// does not look at its context); another request is served meanwhile on the same pool;
	// then the first component carries on
	if !rc.Failed() && len(chunks) > 0 && len(D) > 0 {
		recA, recB := newRecorder(), newRecorder()
		other := chunkComp{chunks: [][]byte{[]byte(strings.Repeat("B", len(D)+17)), []byte("[[tail-of-B]]")}, failAt: 3}
		holdAt := t.Choose(len(chunks), "hold-a-at")
		compA := chunkComp{chunks: chunks, failAt: len(chunks) + 1, between: func(i int) {
			if i == holdAt {
				k.Park("reqA", "mid-render", fmt.Sprint(i), nil)
			}
		}}
		bHeld := t.Bool("hold-b-too")
		compB := other
		if bHeld {
			compB.between = func(i int) {
				if i == 1 {
					k.Park("reqB", "mid-render", "1", nil)
				}
			}
		}
		ctxA, cancelA := context.WithCancel(context.Background())
		aDone, bDone := false, false
		k.Go(func() {
			templ.Handler(compA, templ.WithStatus(201)).ServeHTTP(parkRecorder{recA, func(kind string, n int) {}}, httptest.NewRequest(http.MethodGet, "/a", nil).WithContext(ctxA))
			aDone = true
		})
		k.Quiesce()
		cancelA() // the client of A is gone; its component is held mid-render
		waitCancelAftermath()
		k.Count("fault_request_cancelled_while_component_held", 1)
		k.Go(func() {
			templ.Handler(compB).ServeHTTP(parkRecorder{recB, func(kind string, n int) {}}, httptest.NewRequest(http.MethodGet, "/b", nil))
			bDone = true
		})
		k.Quiesce()
		// A's component carries on (and finishes) before B does, when B is held
		for i := 0; i < 100; i++ {
			p := k.Find("reqA")
			if p == nil {
				break
			}
			k.Run(p, kernel.Decision{})
		}
		for i := 0; i < 100; i++ {
			p := k.Find("reqB")
			if p == nil {
				break
			}
			k.Run(p, kernel.Decision{})
		}
		k.Quiesce()
		cancelA()
		evals += 2
		wantB := append(append([]byte{}, other.chunks[0]...), other.chunks[1]...)
		if !bDone {
			rc.Fail("C11/concurrent-request-corrupts-response", "request B never finished")
		} else if recB.status != http.StatusOK || !bytes.Equal(recB.body.Bytes(), wantB) {
			rc.Fail("C11/concurrent-request-corrupts-response", "request B was served while the component of request A, whose client had gone, was still rendering (held before chunk %d of %d; B held too: %v): B got status %d and %q, want its own %d bytes", holdAt, len(chunks), bHeld, recB.status, kernel.Short(recB.body.String(), 200), len(wantB))
		}
		// A: its client is gone; whatever it was sent must still be all or nothing
		wantA := bytes.Join(chunks, nil)
		if aDone && recA.committed && recA.status == 201 && !bytes.Equal(recA.body.Bytes(), wantA) {
			rc.Fail("C11/partial-document-sent", "request A (client gone mid-render) was answered 201 with %d of %d document bytes", recA.body.Len(), len(wantA))
		}
	}
	// two requests in flight on one handler and one pool: A is held inside its final Write
	// while B (another document, possibly failing) is served completely
	if !rc.Failed() && len(D) > 0 {
		for _, bFails := range []bool{false, true} {
			recA, recB := newRecorder(), newRecorder()
			other := chunkComp{chunks: [][]byte{[]byte(strings.Repeat("B", len(D)+17))}, failAt: 2}
			if bFails {
				other.failAt = 1
			}
			hA := templ.Handler(mk(len(chunks)+1, newEnv(u)), templ.WithStatus(201))
			hB := templ.Handler(other)
			k.Go(func() {
				hA.ServeHTTP(parkRecorder{recA, func(string, int) { k.Park("reqA", "write", "", nil) }}, httptest.NewRequest(http.MethodGet, "/a", nil))
			})
			k.Quiesce()
			hB.ServeHTTP(recB, httptest.NewRequest(http.MethodGet, "/b", nil))
			for i := 0; i < 100000; i++ { // A may send its document in any number of writes
				p := k.Find("reqA")
				if p == nil {
					break
				}
				k.Run(p, kernel.Decision{})
			}
			k.Quiesce()
			evals += 2
			wantB := other.chunks[0]
			if bFails {
				if recB.status != http.StatusInternalServerError || bytes.Contains(recB.body.Bytes(), []byte("BBBB")) || bytes.Contains(recB.body.Bytes(), []byte("[[chunk")) {
					rc.Fail("C11/concurrent-request-corrupts-response", "request B failed while request A (%d-byte document) was held in its Write: B got status %d and %q", len(D), recB.status, kernel.Short(recB.body.String(), 200))
				}
			} else if recB.status != http.StatusOK || !bytes.Equal(recB.body.Bytes(), wantB) {
				rc.Fail("C11/concurrent-request-corrupts-response", "request B (%d x 'B') was served while request A (%d-byte document) was held in its Write: B got status %d and %q", len(wantB), len(D), recB.status, kernel.Short(recB.body.String(), 200))
			}
			if recA.status != 201 || !bytes.Equal(recA.body.Bytes(), D) {
				rc.Fail("C11/concurrent-request-corrupts-response", "request A (%d-byte document, status 201) was held in its Write while request B (fails=%v) was served: A got status %d and %q", len(D), bFails, recA.status, kernel.Short(recA.body.String(), 200))
			}
			k.Count("probe_two_requests_in_flight", 1)
		}
	}
	k.Count("evaluations", int64(evals))
	k.Count("failed_requests", int64(failedReqs))
	k.Count("probe_streaming_partial_output_observed", int64(partials))
	if len(D) > 4096 {
		k.Count("probe_document_larger_than_4k", 1)
	}
	k.Logf("chunks %v generatedRoot %v tree %v evals %d", chunkSizes(chunks), wrapGenerated, tree, evals)
	rc.Finish(k)
	rc.Res.Nontriv = failedReqs > 0
	rc.Res.Key = fmt.Sprintf("%v/%v/%v/%+v", chunkSizes(chunks), wrapGenerated, tree, kn)
	if rc.WantSample || rc.Failed() {
		rc.Res.Sample = map[string]any{"chunk_sizes": chunkSizes(chunks), "generated_root": wrapGenerated, "tree_before_chunks": fmt.Sprint(tree), "doc_bytes": len(D),
			"configurations": 2 * 5 * 5 * 3, "requests": evals, "failed_requests": failedReqs}
	}
}

func chunkSizes(c [][]byte) []int {
	out := make([]int, len(c))
	for i, b := range c {
		out[i] = len(b)
	}
	return out
}

// containsDocPiece reports whether body contains a 12-byte window of D that is not
// whitespace-only (document bytes leaking into an error response).
func containsDocPiece(body, D []byte) bool {
	if len(D) < 12 || len(body) < 12 {
		return false
	}
	for _, off := range []int{0, (len(D) - 12) / 2, len(D) - 12} {
		if bytes.Contains(body, D[off:off+12]) {
			return true
		}
	}
	return false
}
