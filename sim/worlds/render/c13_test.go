package render

import (
	"context"
	"fmt"
	"regexp"
	"strings"

	"github.com/a-h/templ"
	templruntime "github.com/a-h/templ/runtime"
	"github.com/a-h/templ/zzverif/kernel"
	"github.com/a-h/templ/zzverif/shim/simsync"
)

// ---- reference model: lexical scoping of child blocks ------------------------------

type c13model struct {
	seen  map[int]bool // once handles rendered in this context
	nOnce int
	// work bounds the evaluation: nested loops and repeated slots multiply, and a spec whose
	// document would have more than a few thousand tokens is not rendered at all.
	work int
	// unconsumed / onceBlock are probes only: a hand-written callee that never looks at its
	// children, or a once handle, was given a block (the shapes behind defects F2b/F2c).
	unconsumed bool
	onceBlock  bool
}

type thunk func() []string

type tooBig struct{}

func (m *c13model) eval(n *Node, ch thunk) []string {
	if m.work--; m.work < 0 {
		panic(tooBig{})
	}
	kids := func(i int) *Node {
		if i < len(n.Kids) {
			return n.Kids[i]
		}
		return &Node{K: "seq"}
	}
	children := func() []string {
		if ch == nil {
			return nil
		}
		return ch()
	}
	cat := func(parts ...[]string) []string {
		var out []string
		for _, p := range parts {
			out = append(out, p...)
		}
		return out
	}
	all := func() []string {
		var out []string
		for _, k := range n.Kids {
			out = append(out, m.eval(k, nil)...)
		}
		return out
	}
	switch n.K {
	case "block":
		return []string{"blk:" + n.S}
	case "seq":
		return all()
	case "join": // generated JoinOf: no slot, consumes (and drops) a block
		return all()
	case "gojoin": // templ.Join itself: hand-written, never looks at children
		if ch != nil {
			m.unconsumed = true
		}
		return all()
	case "el":
		return cat([]string{"div:" + n.S}, m.eval(kids(0), nil), []string{"/div"})
	case "ifelse":
		if n.B {
			return m.eval(kids(0), nil)
		}
		return m.eval(kids(1), nil)
	case "callnoblock":
		return cat([]string{"cn"}, m.eval(kids(0), nil), []string{"/cn"})
	case "callblock":
		blk := kids(1)
		return cat([]string{"cb"}, m.eval(kids(0), func() []string { return m.eval(blk, nil) }), []string{"/cb"})
	case "callblockthen":
		blk := kids(1)
		return cat(m.eval(kids(0), func() []string { return m.eval(blk, nil) }), m.eval(kids(2), nil))
	case "slot":
		return cat([]string{"w:" + n.S}, children(), []string{"/w"})
	case "slottwice":
		return cat([]string{"w:" + n.S}, children(), []string{"hr"}, children(), []string{"/w"})
	case "noslot":
		return []string{"w:" + n.S, "/w"}
	case "passdown":
		return cat([]string{"w:" + n.S}, m.eval(kids(0), ch), []string{"/w"})
	case "passdowntwice":
		return cat([]string{"w:" + n.S}, m.eval(kids(0), func() []string { return cat(children(), children()) }), []string{"/w"})
	case "slotaround":
		return cat([]string{"w:" + n.S}, m.eval(kids(0), nil), children(), m.eval(kids(1), nil), []string{"/w"})
	case "hwchildren":
		out := []string{"w:" + n.S}
		for i := 0; i < n.N; i++ {
			out = append(out, children()...)
		}
		return append(out, "/w")
	case "hwchildrenbuf":
		return cat([]string{"w:" + n.S}, children(), []string{"/w"})
	case "hwignore":
		if ch != nil {
			m.unconsumed = true
		}
		return []string{"w:" + n.S, "/w"}
	case "raw":
		if ch != nil {
			m.unconsumed = true
		}
		return []string{"raw", "/raw"}
	case "oncebody":
		m.onceBlock = true
		if m.seen[n.N] {
			return nil
		}
		m.seen[n.N] = true
		return m.eval(kids(0), nil)
	case "oncecallee":
		if ch != nil {
			m.onceBlock = true
		}
		if m.seen[n.N] {
			return nil
		}
		m.seen[n.N] = true
		return children()
	case "flush":
		return m.eval(kids(0), nil)
	case "flushcallee":
		return children()
	case "hwwrap", "hwnonce":
		return m.eval(kids(0), ch)
	case "hwclear":
		return m.eval(kids(0), nil)
	case "hwforward": // drops its own block, passes kid 1 to kid 0 as the block
		blk := kids(1)
		return m.eval(kids(0), func() []string { return m.eval(blk, nil) })
	case "hwflush": // hand-written: templ.Flush given kid 0 as its block, on a writer without Flush
		return m.eval(kids(0), nil)
	case "hwforwardnil": // drops its own block and hands its callee "no children"
		return m.eval(kids(0), nil)
	case "hwtwice": // passes its context (and so its block) on, twice
		return cat(m.eval(kids(0), ch), m.eval(kids(0), ch))
	case "shape":
		return m.evalShape(shapeASTs[n.N%len(shapeASTs)], n, ch, m.nOnce)
	}
	panic("c13 model: kind " + n.K)
}

var reTok = regexp.MustCompile(`<(/?)(w|blk|cb|cn|div|raw|hr)\b([^>]*)>`)
var reID = regexp.MustCompile(`id="([^"]*)"`)

// tokens extracts the marker structure of a rendered document.
func tokens(doc string) []string {
	var out []string
	for _, m := range reTok.FindAllStringSubmatchIndex(doc, -1) {
		closing := doc[m[2]:m[3]] == "/"
		tag := doc[m[4]:m[5]]
		attrs := doc[m[6]:m[7]]
		switch tag {
		case "blk":
			if closing {
				continue
			}
			end := strings.Index(doc[m[1]:], "</blk>")
			txt := ""
			if end >= 0 {
				txt = doc[m[1] : m[1]+end]
			}
			out = append(out, "blk:"+txt)
		case "hr":
			out = append(out, "hr")
		case "w", "div":
			if closing {
				out = append(out, "/"+tag)
			} else {
				id := ""
				if im := reID.FindStringSubmatch(attrs); im != nil {
					id = im[1]
				}
				out = append(out, tag+":"+id)
			}
		default:
			if closing {
				out = append(out, "/"+tag)
			} else {
				out = append(out, tag)
			}
		}
	}
	return out
}

// ---- generator -----------------------------------------------------------------------

type c13gen struct {
	t     *kernel.Tape
	next  int
	nOnce int
}

func (g *c13gen) id(p string) string { g.next++; return fmt.Sprintf("%s%d", p, g.next) }

func (g *c13gen) callee(budget *int, depth int) *Node {
	t := g.t
	// templ.Join is never *given* a block: what its elements should then receive is not
	// defined by the statement (it passes its context on), so that shape is not judged.
	kinds := []string{"slot", "slot", "slottwice", "noslot", "passdown", "passdowntwice", "slotaround", "hwchildren", "flushcallee", "hwwrapslot", "oncecallee", "hwignore", "raw", "join", "hwforward", "hwnonce", "hwclear", "hwchildrenbuf", "shape", "shape", "shape", "hwtwice"}
	k := kinds[t.Choose(len(kinds), "calleekind")]
	switch k {
	case "slot", "slottwice", "noslot", "hwignore", "hwchildrenbuf":
		return &Node{K: k, S: g.id("c")}
	case "raw":
		return &Node{K: "raw", S: "r"}
	case "hwchildren":
		return &Node{K: k, S: g.id("h"), N: t.Range(0, 2, "times")}
	case "passdown", "passdowntwice":
		return &Node{K: k, S: g.id("p"), Kids: []*Node{g.callee(budget, depth+1)}}
	case "slotaround":
		return &Node{K: k, S: g.id("a"), Kids: []*Node{g.node(budget, depth+1), g.node(budget, depth+1)}}
	case "oncecallee":
		return &Node{K: k, N: t.Choose(g.nOnce, "handle")}
	case "flushcallee":
		return &Node{K: k}
	case "hwwrapslot":
		return &Node{K: "hwwrap", N: 16, Kids: []*Node{{K: "slot", S: g.id("c")}}}
	case "join":
		n := &Node{K: k}
		for i, c := 0, t.Range(1, 3, "nkids"); i < c; i++ {
			n.Kids = append(n.Kids, g.node(budget, depth+1))
		}
		return n
	case "hwforward":
		return &Node{K: k, Kids: []*Node{g.callee(budget, depth+1), g.node(budget, depth+1)}}
	case "hwnonce", "hwclear", "hwtwice", "hwforwardnil":
		return &Node{K: k, Kids: []*Node{g.callee(budget, depth+1)}}
	case "shape":
		return g.shape(budget, depth)
	}
	panic(k)
}

// shape draws an instance of the seeded template family. Its parameters are callees: the
// template calls them with and without blocks.
func (g *c13gen) shape(budget *int, depth int) *Node {
	return genShape(g.t, g.id("S"), func() *Node {
		if depth >= 5 || *budget <= 0 {
			return &Node{K: "slot", S: g.id("c")}
		}
		*budget--
		return g.callee(budget, depth+1)
	})
}

func (g *c13gen) node(budget *int, depth int) *Node {
	t := g.t
	*budget--
	if depth >= 6 || *budget <= 0 || t.Chance(2, 7, "leaf") {
		switch t.Choose(4, "leafkind") {
		case 0:
			return &Node{K: "block", S: g.id("B")}
		case 1:
			return &Node{K: "slot", S: g.id("s")} // a slot-bearing component called without a block
		case 2:
			return &Node{K: "noslot", S: g.id("n")}
		default:
			return &Node{K: "slottwice", S: g.id("t")}
		}
	}
	sub := func() *Node { return g.node(budget, depth+1) }
	kinds := []string{"seq", "seq", "el", "ifelse", "callnoblock", "callblock", "callblock", "callblockthen", "callblockthen", "flush", "join", "gojoin", "passdowncall", "hwwrap", "oncebody", "oncebody", "shape", "shape", "hwflush"}
	switch k := kinds[t.Choose(len(kinds), "innerkind")]; k {
	case "seq", "join", "gojoin":
		n := &Node{K: k}
		for i, c := 0, t.Range(1, 4, "nkids"); i < c; i++ {
			n.Kids = append(n.Kids, sub())
		}
		return n
	case "el":
		return &Node{K: "el", S: g.id("e"), Kids: []*Node{sub()}}
	case "ifelse":
		return &Node{K: "ifelse", B: t.Bool("cond"), Kids: []*Node{sub(), sub()}}
	case "callnoblock":
		return &Node{K: k, Kids: []*Node{g.callee(budget, depth+1)}}
	case "callblock":
		return &Node{K: k, Kids: []*Node{g.callee(budget, depth+1), sub()}}
	case "callblockthen":
		return &Node{K: k, Kids: []*Node{g.callee(budget, depth+1), sub(), sub()}}
	case "passdowncall":
		return &Node{K: "callblock", Kids: []*Node{{K: "passdown", S: g.id("p"), Kids: []*Node{g.callee(budget, depth+1)}}, sub()}}
	case "oncebody":
		return &Node{K: k, N: t.Choose(g.nOnce, "handle"), Kids: []*Node{sub()}}
	case "flush":
		return &Node{K: k, Kids: []*Node{sub()}}
	case "hwwrap":
		return &Node{K: k, N: 16, Kids: []*Node{sub()}}
	case "hwflush":
		return &Node{K: k, Kids: []*Node{sub()}}
	case "shape":
		return g.shape(budget, depth)
	}
	panic("gen")
}

// closureOwner finds, for the node carrying token id, the kind of the callee whose
// block (or the wrapper whose body) lexically encloses it.
func closureOwner(root *Node, tok string) string {
	var found string
	var walk func(n *Node, owner string) bool
	walk = func(n *Node, owner string) bool {
		if (n.K == "block" && "blk:"+n.S == tok) || ("w:"+n.S == tok && n.S != "") || ("div:"+n.S == tok && n.K == "el") {
			found = owner
			return true
		}
		if n.K == "shape" && (strings.HasPrefix(tok, "blk:"+n.S+"-m") || strings.HasPrefix(tok, "div:"+n.S+"-e")) {
			found = "body-of-a-seeded-template"
			return true
		}
		for i, k := range n.Kids {
			o := owner
			switch {
			case (n.K == "callblock" || n.K == "callblockthen") && i == 1:
				o = "block-of-" + n.Kids[0].K
			case n.K == "oncebody" || n.K == "flush":
				o = "body-of-" + n.K
			case n.K == "hwforward" && i == 1:
				o = "block-forwarded-by-handwritten-layer"
			}
			if walk(k, o) {
				return true
			}
		}
		return false
	}
	walk(root, "top-level")
	return found
}

// c13fits says whether the model's document for these specs stays within the work bound.
func c13fits(specs []*Node, nOnce int) (ok bool) {
	defer func() {
		if r := recover(); r != nil {
			if _, is := r.(tooBig); !is {
				panic(r)
			}
			ok = false
		}
	}()
	m := &c13model{seen: map[int]bool{}, nOnce: nOnce, work: 6000}
	for _, s := range specs {
		m.eval(s, nil)
	}
	return true
}

type c13ctx struct {
	plain bool
	name  string
	specs []*Node
	env   *Env
	w     *core
	err   error
	fault Fault
}

func c13World(rc *kernel.RunCtx) {
	t := rc.T
	k := kernel.New(t, kernel.M1, 1<<30)
	kernel.Active = k
	takeLateUse() // nothing from an earlier run
	defer lockAware(k)()
	kn := drawKnobs(t, rc.Run)
	kn.OwnBuf = false
	kn.install(t)
	defer simsync.SetPoolPolicy(nil, 0)
	templruntime.SetDevelopmentMode(false)
	maxSteps := rc.Param("max_steps", 2000)
	nOnce := t.Range(1, 3, "nonce-handles")
	uni := newUniverse(nOnce)
	g := &c13gen{t: t, nOnce: nOnce}
	nctx := t.Range(1, rc.Param("max_contexts", 3), "ncontexts")
	faultsLeft := t.Choose(2, "nfaults")
	var ctxs []*c13ctx
	for i := 0; i < nctx; i++ {
		c := &c13ctx{name: fmt.Sprintf("ctx#%d", i), plain: t.Chance(1, 4, "plain-context")}
		nr := t.Range(1, 2, "renders-in-context")
		if c.plain {
			nr = 1
		}
		for j := 0; j < nr; j++ {
			b := t.Range(2, rc.Param("max_nodes", 40), "budget")
			if c.plain && t.Bool("layout-pattern") {
				// the documented way to give a layout its body from Go code:
				// layout.Render(templ.WithChildren(ctx, body), w), on a context nothing has touched
				c.specs = append(c.specs, &Node{K: "hwforward", Kids: []*Node{g.callee(&b, 1), g.node(&b, 1)}})
				continue
			}
			c.specs = append(c.specs, &Node{K: "seq", Kids: []*Node{g.node(&b, 0)}})
		}
		if faultsLeft > 0 && t.Chance(1, 4, "faulty-context") {
			faultsLeft--
			c.fault = Fault{Kind: "zero", At: t.Choose(300, "fat")}
		}
		if !c13fits(c.specs, nOnce) {
			// loops and repeated slots multiply: the document would be huge (not endless)
			k.Count("specs_replaced_because_the_document_would_be_huge", 1)
			c.specs = []*Node{{K: "seq", Kids: []*Node{{K: "block", S: g.id("B")}}}}
		}
		ctxs = append(ctxs, c)
	}
	for _, c := range ctxs {
		c := c
		c.env = newEnv(uni)
		park := func(kind string, n int) { k.Park(c.name, kind, fmt.Sprint(n), nil) }
		c.w = &core{fault: c.fault, sticky: true, park: park, limit: 512 << 10}
		k.GoNamed(c.name, func() {
			defer func() { c.w.done = true }()
			k.Park(c.name, "start", "", nil)
			ctx := templ.InitializeContext(context.Background())
			if c.plain {
				// a render started from Go code on a context templ has never seen (one render: the
				// registry of once handles then lives as long as that render)
				ctx = context.Background()
			}
			for _, s := range c.specs {
				if err := c.env.Build(s).Render(ctx, c.w.as(kn.WKind)); err != nil {
					c.err = err
					return
				}
			}
		})
	}
	pk := newPicker(t)
	for {
		k.Quiesce()
		ps := k.ParkedList()
		if len(ps) == 0 {
			if n := k.Blocked(); n > 0 {
				// nothing runs, nothing is held by the scheduler, and tasks wait for a lock of the
				// code under test: only one of themselves could release it
				rc.Fail("C13/deadlock", "%d render(s) wait forever for a lock in the code under test while no other render is running or held at a seam", n)
				rc.Res.Restart = true
			}
			break
		}
		runaway := false
		for _, p := range ps {
			if p.Kind == "runaway" {
				runaway = true
			}
		}
		if runaway || k.Steps > 100*maxSteps {
			// the parked tasks are abandoned; the worker process is restarted after this run
			rc.Fail("C13/render-does-not-terminate", "a render wrote more than %d bytes or needed %d scheduler steps (runaway recursion)", 512<<10, k.Steps)
			rc.Res.Restart = true
			break
		}
		i := 0
		if k.Steps < maxSteps {
			i = pk.pick(t, ps)
		}
		k.Run(ps[i], kernel.Decision{})
	}
	calls := 0
	for _, c := range ctxs {
		if c.w.fired {
			k.Count("fault_context_writer_failed", 1)
			if c.err == nil {
				rc.Fail("C13/fault-swallowed", "%s: writer failed but Render returned nil", c.name)
			}
			continue
		}
		if c.err != nil {
			rc.Fail("C13/render-error", "%s: %v (specs %v)", c.name, c.err, c.specs)
			continue
		}
		m := &c13model{seen: map[int]bool{}, nOnce: nOnce, work: 1 << 30}
		var want []string
		for _, s := range c.specs {
			want = append(want, m.eval(s, nil)...)
		}
		got := tokens(string(c.w.got))
		calls += len(want)
		if m.unconsumed {
			k.Count("probe_handwritten_callee_given_block", 1)
		}
		if m.onceBlock {
			k.Count("probe_once_handle_given_block", 1)
		}

		if strings.Join(want, " ") == strings.Join(got, " ") {
			k.Count("contexts_matching_model", 1)
			continue
		}
		// classify
		cnt := map[string]int{}
		for _, x := range want {
			cnt[x]--
		}
		for _, x := range got {
			cnt[x]++
		}
		sig, detail := "C13/order-differs", "same tokens, different structure"
		for _, x := range append(append([]string{}, got...), want...) {
			if !(strings.HasPrefix(x, "blk:") || strings.HasPrefix(x, "w:") || strings.HasPrefix(x, "div:")) || cnt[x] == 0 {
				continue
			}
			owner := "top-level"
			for _, s := range c.specs {
				if o := closureOwner(s, x); o != "" {
					owner = o
					break
				}
			}
			if cnt[x] > 0 {
				sig, detail = "C13/rendered-too-often:"+owner, fmt.Sprintf("%s appears %d more time(s) than lexical scoping allows; it lives in the %s", x, cnt[x], owner)
			} else {
				sig, detail = "C13/not-rendered:"+owner, fmt.Sprintf("%s appears %d time(s) less than lexical scoping requires; it lives in the %s", x, -cnt[x], owner)
			}
			break
		}
		rc.Fail(sig, "%s (%d contexts interleaved): %s\n specs: %v\n want: %s\n got:  %s\n document: %s", c.name, nctx, detail, c.specs, strings.Join(want, " "), strings.Join(got, " "), kernel.Short(string(c.w.got), 600))
	}
	k.Count("model_tokens_checked", int64(calls))
	if lu := takeLateUse(); lu != "" {
		rc.Fail("C13/writer-used-after-its-render-returned", "%s", lu)
	}
	rc.Finish(k)
	rc.Res.Nontriv = calls >= 4
	rc.Res.Key = rc.Res.LogHash
	if rc.WantSample || rc.Failed() {
		var cs []map[string]any
		for _, c := range ctxs {
			var sp []string
			for _, s := range c.specs {
				sp = append(sp, s.String())
			}
			cs = append(cs, map[string]any{"context": c.name, "renders": sp, "fault": fmt.Sprint(c.fault), "tokens": strings.Join(tokens(string(c.w.got)), " ")})
		}
		rc.Res.Sample = map[string]any{"contexts": cs, "once_handles": nOnce, "steps": k.Steps, "switches": k.Switches}
	}
}
