// Package render is the world for C10-C14: real generated components (combinator
// templates generated at check time), the real templ runtime and handler; simulated
// writers, expression bodies, cancellation, pools and ResponseWriters.
package render

import (
	"testing"

	"github.com/a-h/templ/zzverif/kernel"
)

func simWorld(rc *kernel.RunCtx) {
	switch rc.Prop {
	case "C10":
		c10World(rc)
	case "C11":
		c11World(rc)
	case "C12":
		c12World(rc)
	case "C13":
		c13World(rc)
	case "C14":
		c14World(rc)
	default:
		rc.Fail("harness", "render world does not serve %s", rc.Prop)
	}
}

func TestSim(t *testing.T) { kernel.Main(t, simWorld) }
