// Package corpus holds the combinator templates of the render world. c_templ.go and
// lit_templ.go are generated at check time by the working tree's own generator.
package corpus

import _ "embed"

//go:embed c.templ
var Source string
