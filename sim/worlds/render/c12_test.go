package render

import "github.com/a-h/templ"

func (e *Env) buildC12(n *Node) templ.Component { panic("todo") }
