package render

import (
	"context"
	"fmt"
	"io"
	"net/http"
	"net/http/httptest"
	"regexp"
	"sort"
	"strings"

	"github.com/a-h/templ"
	templruntime "github.com/a-h/templ/runtime"
	"github.com/a-h/templ/zzverif/kernel"
	"github.com/a-h/templ/zzverif/shim/simsync"
	"github.com/a-h/templ/zzverif/worlds/render/corpus"
)

// Item is one element of a class expression.
type Item struct {
	F   string `json:"f"`
	C   int    `json:"c,omitempty"`
	B   bool   `json:"b,omitempty"`
	Sub []Item `json:"sub,omitempty"`
}

// c12u is the finite universe of a run.
type c12u struct {
	Scripts  []templ.ComponentScript
	Css      []templ.ComponentCSSClass
	Reg      map[string]bool // css IDs registered with the middleware
	OnceWith []bool          // handle i was created WithComponent
}

var scriptPool = func() []templ.ComponentScript {
	return []templ.ComponentScript{corpus.ScriptA("p"), corpus.ScriptA("q<\"&"), corpus.ScriptB(1), corpus.ScriptB(2), corpus.ScriptC(), corpus.ScriptD("x", "y"),
		templ.JSFuncCall("alertIt", "m", 3),
		// hand-built values, as the API allows; the script and the class below share an identifier
		{Name: "widget", Function: "function widget(){return 1}", Call: "widget()", CallInline: "widget()"}}
}
var cssPool = func() []templ.ComponentCSSClass {
	return []templ.ComponentCSSClass{corpus.CssA("red").(templ.ComponentCSSClass), corpus.CssA("blue").(templ.ComponentCSSClass), corpus.CssB().(templ.ComponentCSSClass),
		corpus.CssC("10px").(templ.ComponentCSSClass), corpus.CssD().(templ.ComponentCSSClass),
		{ID: "widget", Class: templ.SafeCSS(".widget{color:blue;}")}}
}

func (it Item) toAny(u *c12u) any {
	css := func(i int) templ.ComponentCSSClass { return u.Css[i%len(u.Css)] }
	switch it.F {
	case "css":
		return css(it.C)
	case "kvcomp":
		return templ.KV(css(it.C), it.B)
	case "kviface":
		return templ.KV(templ.CSSClass(css(it.C)), it.B)
	case "classes":
		var out templ.CSSClasses
		for _, s := range it.Sub {
			out = append(out, s.toAny(u))
		}
		return out
	case "slice":
		var out []templ.CSSClass
		for _, s := range it.Sub {
			if s.F == "css" {
				out = append(out, css(s.C))
			} else {
				out = append(out, templ.ConstantCSSClass(fmt.Sprintf("k%d", s.C)))
			}
		}
		return out
	case "func":
		c := css(it.C)
		return func() templ.CSSClass { return c }
	case "str":
		return fmt.Sprintf("s%d", it.C)
	case "map":
		return map[string]bool{fmt.Sprintf("m%d", it.C): it.B}
	case "const":
		return templ.Class(fmt.Sprintf("k%d", it.C))
	}
	panic("item form " + it.F)
}

// enabled appends (css index, enabled) pairs in the order the item names classes. In a
// class expression the last mention of a name decides whether it is present.
func (it Item) enabled(u *c12u, out *[][2]int) {
	b2i := func(b bool) int {
		if b {
			return 1
		}
		return 0
	}
	switch it.F {
	case "css", "func":
		*out = append(*out, [2]int{it.C % len(u.Css), 1})
	case "kvcomp", "kviface":
		*out = append(*out, [2]int{it.C % len(u.Css), b2i(it.B)})
	case "classes":
		for _, s := range it.Sub {
			s.enabled(u, out)
		}
	case "slice":
		for _, s := range it.Sub {
			if s.F == "css" {
				*out = append(*out, [2]int{s.C % len(u.Css), 1})
			}
		}
	}
}

type useRec struct {
	Kind    string
	Scripts []int
	Css     []int
	Handle  int
	Marker  string
}

// C12 extension of Node: M is a second index, Items the class expression.
type nodeExt struct {
	M     int
	Items []Item
	Ss    []int // ashape: the three script parameters
	Conds int   // ashape: the condition bits
}

func (e *Env) counted(rec useRec, c templ.Component) templ.Component {
	return templ.ComponentFunc(func(ctx context.Context, w io.Writer) error {
		if !e.Static {
			e.Uses = append(e.Uses, rec)
			if e.Cancelled && kernel.Active != nil {
				kernel.Active.Count("probe_use_rendered_after_request_context_was_cancelled", 1)
			}
		}
		return c.Render(ctx, w)
	})
}

// countedMany is counted for a component that renders several uses.
func (e *Env) countedMany(recs []useRec, c templ.Component) templ.Component {
	return templ.ComponentFunc(func(ctx context.Context, w io.Writer) error {
		if !e.Static {
			e.Uses = append(e.Uses, recs...)
		}
		return c.Render(ctx, w)
	})
}

func (e *Env) buildC12(n *Node) templ.Component {
	u := e.C12
	x := e.Ext[n]
	if x == nil {
		x = &nodeExt{}
	}
	sc := func(i int) templ.ComponentScript { return u.Scripts[i%len(u.Scripts)] }
	si := func(i int) int { return i % len(u.Scripts) }
	item := func(i int) Item {
		if i < len(x.Items) {
			return x.Items[i]
		}
		return Item{F: "str"}
	}
	en := func(items ...Item) []int {
		var prs [][2]int
		for _, it := range items {
			it.enabled(u, &prs)
		}
		last := map[int]int{}
		var order []int
		for _, p := range prs {
			if _, ok := last[p[0]]; !ok {
				order = append(order, p[0])
			}
			last[p[0]] = p[1]
		}
		var out []int
		for _, ci := range order {
			if last[ci] == 1 {
				out = append(out, ci)
			}
		}
		return out
	}
	switch n.K {
	case "usescript":
		return e.counted(useRec{Kind: "usescript", Scripts: []int{si(n.N)}}, corpus.UseScript(sc(n.N)))
	case "rawscript": // the script value itself as a component (no generated code around it)
		return e.counted(useRec{Kind: "usescript", Scripts: []int{si(n.N)}}, sc(n.N))
	case "onclick":
		return e.counted(useRec{Kind: "onclick", Scripts: []int{si(n.N)}}, corpus.OnClick(sc(n.N)))
	case "ontwo":
		return e.counted(useRec{Kind: "ontwo", Scripts: []int{si(n.N), si(x.M)}}, corpus.OnTwo(sc(n.N), sc(x.M)))
	case "oncond":
		used := si(n.N)
		if !n.B {
			used = si(x.M)
		}
		k := "oncond-t"
		if !n.B {
			k = "oncond-f"
		}
		return e.counted(useRec{Kind: k, Scripts: []int{used}}, corpus.OnCond(n.B, sc(n.N), sc(x.M)))
	case "onhx":
		return e.counted(useRec{Kind: "onhx", Scripts: []int{si(n.N)}}, corpus.OnHx(sc(n.N)))
	case "classof":
		var anys []any
		for _, it := range x.Items {
			anys = append(anys, it.toAny(u))
		}
		return e.counted(useRec{Kind: "classof", Css: en(x.Items...)}, corpus.ClassOf(anys))
	case "classtwo":
		return e.counted(useRec{Kind: "classtwo", Css: en(item(0), item(1))}, corpus.ClassTwo(item(0).toAny(u), item(1).toAny(u)))
	case "bshape":
		// a member of the seeded statement family: if / else, switch and for around buttons with
		// handlers; each button that is rendered is a use
		conds := shapeConds(x.Conds)
		var recs []useRec
		var walk func(ns []*shNode)
		walk = func(ns []*shNode) {
			for _, b := range ns {
				switch b.K {
				case "btn":
					recs = append(recs, useRec{Kind: "bbtn", Scripts: []int{si(x.Ss[b.I])}, Marker: n.S})
				case "if", "switch":
					if conds[b.I] {
						walk(b.Then)
					} else {
						walk(b.Else)
					}
				case "for":
					walk(b.Body)
					walk(b.Body)
				}
			}
		}
		walk(bshapeASTs[n.N%len(bshapeASTs)])
		return e.countedMany(recs, corpus.BShapes[n.N%len(corpus.BShapes)](n.S, []templ.ComponentScript{sc(x.Ss[0]), sc(x.Ss[1])}, conds))
	case "ashape":
		// a member of the seeded attribute-list family: which handlers and classes the element
		// ends up with follows from the condition bits
		ast := ashapeASTs[n.N%len(ashapeASTs)]
		conds := shapeConds(x.Conds)
		var scripts []int
		var classItems []Item
		var walk func(ns []*shNode)
		walk = func(ns []*shNode) {
			for _, a := range ns {
				switch a.K {
				case "on":
					scripts = append(scripts, si(x.Ss[a.I]))
				case "class":
					for _, i := range a.Is {
						classItems = append(classItems, item(i))
					}
				case "cond":
					if conds[a.I] {
						walk(a.Then)
					} else {
						walk(a.Else)
					}
				}
			}
		}
		walk(ast)
		ss := []templ.ComponentScript{sc(x.Ss[0]), sc(x.Ss[1]), sc(x.Ss[2])}
		ks := []any{item(0).toAny(u), item(1).toAny(u), item(2).toAny(u)}
		return e.counted(useRec{Kind: "ashape", Scripts: scripts, Css: en(classItems...), Marker: n.S}, corpus.AShapes[n.N%len(corpus.AShapes)](n.S, ss, ks, conds))
	case "classcond":
		used := item(0)
		if !n.B {
			used = item(1)
		}
		return e.counted(useRec{Kind: "classcond", Css: en(used)}, corpus.ClassCond(n.B, item(0).toAny(u), item(1).toAny(u)))
	}
	panic("c12 kind " + n.K)
}

func genItem(t *kernel.Tape, depth int) Item {
	// KeyValue[ComponentCSSClass,bool] is deliberately absent: the runtime has a rule path but no
	// name path for it, so it is not a supported container form (DESIGN C12).
	forms := []string{"css", "css", "kviface", "kviface", "classes", "slice", "func", "str", "map", "const"}
	f := forms[t.Choose(len(forms), "form")]
	if depth >= 2 && (f == "classes" || f == "slice") {
		f = "css"
	}
	it := Item{F: f, C: t.Choose(8, "ci"), B: t.Chance(3, 4, "enabled")}
	if f == "classes" || f == "slice" {
		n := t.Range(0, 3, "nsub")
		for i := 0; i < n; i++ {
			if f == "slice" {
				it.Sub = append(it.Sub, Item{F: []string{"css", "const"}[t.Choose(2, "sf")], C: t.Choose(8, "ci")})
			} else {
				it.Sub = append(it.Sub, genItem(t, depth+1))
			}
		}
	}
	return it
}

// genUseLeaf draws one use of a script, css class or once handle.
func genUseLeaf(t *kernel.Tape, ext map[*Node]*nodeExt, nOnce int) *Node {
	uses := []string{"rawscript", "rawscript", "rawscript", "text", "text", "usescript", "onclick", "ontwo", "oncond", "onhx", "classof", "classtwo", "classcond", "oncemark", "oncewith", "lit", "text", "ashape", "ashape", "ashape", "bshape", "bshape"}
	k := uses[t.Choose(len(uses), "usekind")]
	n := &Node{K: k, N: t.Choose(16, "n"), B: t.Bool("b")}
	x := &nodeExt{M: t.Choose(16, "m")}
	switch k {
	case "classof":
		c := t.Range(0, 4, "nitems")
		for i := 0; i < c; i++ {
			x.Items = append(x.Items, genItem(t, 0))
		}
	case "classtwo", "classcond":
		x.Items = []Item{genItem(t, 1), genItem(t, 1)}
	case "bshape":
		n.N = t.Choose(len(bshapeASTs), "bshape")
		n.S = fmt.Sprintf("b%d", t.Choose(1000, "bid"))
		x.Ss = []int{t.Choose(16, "s0"), t.Choose(16, "s1")}
		x.Conds = t.Choose(8, "conds")
	case "ashape":
		n.N = t.Choose(len(ashapeASTs), "ashape")
		n.S = fmt.Sprintf("a%d", t.Choose(1000, "aid"))
		x.Items = []Item{genItem(t, 1), genItem(t, 1), genItem(t, 1)}
		x.Ss = []int{t.Choose(16, "s0"), t.Choose(16, "s1"), t.Choose(16, "s2")}
		x.Conds = t.Choose(8, "conds")
	case "oncemark":
		n.N = n.N % nOnce
		n.S = fmt.Sprintf("h%d-%d", n.N, t.Choose(1000, "marker"))
	case "text":
		n.S = "plain"
	}
	ext[n] = x
	return n
}

// fullC12 is the whole pool as a universe (used by worlds that mix uses into general trees).
func fullC12(nOnce int) *c12u {
	u := &c12u{Reg: map[string]bool{}, Scripts: scriptPool(), Css: cssPool()}
	for i := 0; i < nOnce; i++ {
		u.OnceWith = append(u.OnceWith, false)
	}
	return u
}

// genC12 draws a use tree.
func genC12(t *kernel.Tape, ext map[*Node]*nodeExt, budget *int, depth int, nOnce int) *Node {
	*budget--
	inner := []string{"seq", "seq", "el", "ifelse", "callblock", "oncebody", "callnoblock", "join", "hwnonce"}
	if depth >= 4 || *budget <= 0 || t.Chance(3, 6, "leaf") {
		return genUseLeaf(t, ext, nOnce)
	}
	k := inner[t.Choose(len(inner), "innerkind")]
	sub := func() *Node { return genC12(t, ext, budget, depth+1, nOnce) }
	switch k {
	case "seq", "join":
		n := &Node{K: k}
		c := t.Range(1, 5, "nkids")
		for i := 0; i < c; i++ {
			n.Kids = append(n.Kids, sub())
		}
		return n
	case "el":
		return &Node{K: "el", S: "e", Kids: []*Node{sub()}}
	case "ifelse":
		return &Node{K: "ifelse", B: t.Bool("cond"), Kids: []*Node{sub(), sub()}}
	case "callblock":
		callee := &Node{K: []string{"slot", "slottwice", "noslot"}[t.Choose(3, "callee")], S: "c"}
		return &Node{K: "callblock", Kids: []*Node{callee, sub()}}
	case "callnoblock":
		return &Node{K: "callnoblock", Kids: []*Node{sub()}}
	case "hwnonce": // a hand-written layer that renders its subtree with a nonce of its own
		return &Node{K: "hwnonce", Kids: []*Node{sub()}}
	case "oncebody":
		h := t.Choose(nOnce, "handle")
		return &Node{K: "oncebody", N: h, Kids: []*Node{{K: "seq", Kids: []*Node{{K: "block", S: fmt.Sprintf("OB-h%d", h)}, sub()}}}}
	}
	return &Node{K: "lit"}
}

var (
	reClassOf   = regexp.MustCompile(`<div\s+class="([^"]*)"\s*>k</div>`)
	reClassTwo  = regexp.MustCompile(`<div\s+class="([^"]*)"\s*>k2</div>`)
	reClassCond = regexp.MustCompile(`<div\s+class="([^"]*)"\s*>k3</div>`)
	reOnClick   = regexp.MustCompile(`<button\s+onclick="([^"]*)"\s+type="button"\s*>b1</button>`)
	reOnTwo     = regexp.MustCompile(`<button\s+onclick="([^"]*)"\s+onmouseover="([^"]*)"\s+type="button"\s*>b2</button>`)
	reOnCondT   = regexp.MustCompile(`<input\s+type="button"\s+onclick="([^"]*)"\s*/?>`)
	reOnCondF   = regexp.MustCompile(`<input\s+type="button"\s+onfocus="([^"]*)"\s*/?>`)
	reOnHx      = regexp.MustCompile(`<button\s+hx-on::click="([^"]*)"\s+type="button"\s*>b3</button>`)
	reBBtn      = regexp.MustCompile(`<button\s+data-b="[^"]*"([^>]*)>bsh</button>`)
	reAShape    = regexp.MustCompile(`<button\s+data-sh="[^"]*"([^>]*)>ash</button>`)
	reOnceUse   = regexp.MustCompile(`<once-use>(h(\d+)-\d+)</once-use>`)
	reOnceBody  = regexp.MustCompile(`<once-body>(h(\d+)-\d+)</once-body>`)
)

func allIndex(s, sub string) []int {
	var out []int
	if sub == "" {
		return out
	}
	for i := 0; ; {
		j := strings.Index(s[i:], sub)
		if j < 0 {
			return out
		}
		out = append(out, i+j)
		i += j + len(sub)
	}
}

// checkC12 applies the oracle to one context's complete document.
func checkC12(rc *kernel.RunCtx, k *kernel.Kernel, who string, doc string, uses []useRec, u *c12u, nOnce int) {
	fail := func(sig, format string, a ...any) {
		rc.Fail(sig, "%s: %s\n document: %s", who, fmt.Sprintf(format, a...), kernel.Short(doc, 1200))
	}
	// 1. locate the markup of every use, in document order per kind
	type located struct {
		rec useRec
		off int
		val []string
	}
	var locs []located
	byKind := map[string][]useRec{}
	for _, r := range uses {
		byKind[r.Kind] = append(byKind[r.Kind], r)
	}
	match := func(kind string, re *regexp.Regexp) bool {
		ms := re.FindAllStringSubmatchIndex(doc, -1)
		recs := byKind[kind]
		if len(ms) != len(recs) {
			fail("C12/use-markup-count:"+kind, "%d uses of kind %s were rendered but the document has %d such elements", len(recs), kind, len(ms))
			return false
		}
		for i, m := range ms {
			var vals []string
			for g := 2; g+1 < len(m); g += 2 {
				vals = append(vals, doc[m[g]:m[g+1]])
			}
			locs = append(locs, located{recs[i], m[0], vals})
		}
		return true
	}
	ok := match("classof", reClassOf) && match("classtwo", reClassTwo) && match("classcond", reClassCond) && match("onclick", reOnClick) &&
		match("ontwo", reOnTwo) && match("oncond-t", reOnCondT) && match("oncond-f", reOnCondF) && match("onhx", reOnHx) && match("ashape", reAShape) && match("bbtn", reBBtn)
	if !ok {
		return
	}
	// script components: <script ...>CallInline</script>, matched in order
	pos := 0
	for _, r := range byKind["usescript"] {
		s := u.Scripts[r.Scripts[0]]
		needle := ">" + s.CallInline + "</script>"
		j := strings.Index(doc[pos:], needle)
		if j < 0 {
			fail("C12/use-call-missing:usescript", "script component %s was rendered but its call %q is not in the document (after offset %d)", s.Name, s.CallInline, pos)
			return
		}
		locs = append(locs, located{r, pos + j, nil})
		pos += j + len(needle)
	}
	// 2. every use carries its call / class name
	for _, l := range locs {
		switch l.rec.Kind {
		case "onclick", "onhx", "oncond-t", "oncond-f", "ontwo":
			for i, si := range l.rec.Scripts {
				if l.val[i] != u.Scripts[si].Call {
					fail("C12/use-call-wrong:"+l.rec.Kind, "attribute holds %q, want the call %q", l.val[i], u.Scripts[si].Call)
					return
				}
			}
		case "ashape", "bbtn":
			for _, si := range l.rec.Scripts {
				if !strings.Contains(l.val[0], `="`+u.Scripts[si].Call+`"`) {
					fail("C12/use-call-wrong:ashape", "element %s has attributes %q, which lack the handler call %q", l.rec.Marker, l.val[0], u.Scripts[si].Call)
					return
				}
			}
			names := []string{}
			if m := regexp.MustCompile(`class="([^"]*)"`).FindStringSubmatch(l.val[0]); m != nil {
				names = strings.Fields(m[1])
			}
			for _, ci := range l.rec.Css {
				found := false
				for _, nm := range names {
					if nm == u.Css[ci].ID {
						found = true
					}
				}
				if !found {
					fail("C12/use-class-name-missing:ashape", "element %s has attributes %q, which lack the class %s", l.rec.Marker, l.val[0], u.Css[ci].ID)
					return
				}
			}
		case "classof", "classtwo", "classcond":
			names := strings.Fields(l.val[0])
			for _, ci := range l.rec.Css {
				found := false
				for _, nm := range names {
					if nm == u.Css[ci].ID {
						found = true
					}
				}
				if !found {
					fail("C12/use-class-name-missing:"+l.rec.Kind, "class attribute %q lacks %s", l.val[0], u.Css[ci].ID)
					return
				}
			}
		}
	}
	// 3. definitions: at most once, before first use
	firstUseScript := map[string]int{}
	firstUseCss := map[int]int{}
	for _, l := range locs {
		for _, si := range l.rec.Scripts {
			nm := u.Scripts[si].Name
			if o, ok := firstUseScript[nm]; !ok || l.off < o {
				firstUseScript[nm] = l.off
			}
		}
		for _, ci := range l.rec.Css {
			if o, ok := firstUseCss[ci]; !ok || l.off < o {
				firstUseCss[ci] = l.off
			}
		}
	}
	seenName := map[string]bool{}
	for _, s := range u.Scripts {
		if s.Function == "" || seenName[s.Name] {
			continue
		}
		seenName[s.Name] = true
		defs := allIndex(doc, s.Function)
		if len(defs) > 1 {
			fail("C12/script-defined-twice", "function of %s is defined %d times (offsets %v)", s.Name, len(defs), defs)
			return
		}
		if fu, used := firstUseScript[s.Name]; used {
			if len(defs) == 0 {
				fail("C12/script-used-undefined", "%s is used at offset %d but its function is never defined in this context", s.Name, fu)
				return
			}
			if defs[0] > fu {
				fail("C12/script-defined-after-use", "%s is used at offset %d but defined at %d", s.Name, fu, defs[0])
				return
			}
			k.Count("checked_script_items", 1)
		}
	}
	for ci, c := range u.Css {
		defs := allIndex(doc, string(c.Class))
		if len(defs) > 1 {
			fail("C12/css-defined-twice", "rule of %s is emitted %d times (offsets %v)", c.ID, len(defs), defs)
			return
		}
		if u.Reg[c.ID] {
			if len(defs) > 0 {
				fail("C12/registered-css-inlined", "%s is registered with the middleware but its rule is inlined at %v", c.ID, defs)
				return
			}
			continue
		}
		if fu, used := firstUseCss[ci]; used {
			if len(defs) == 0 {
				fail("C12/css-used-undefined", "class %s is used at offset %d but its rule is never emitted in this context", c.ID, fu)
				return
			}
			if defs[0] > fu {
				fail("C12/css-defined-after-use", "class %s is used at offset %d but its rule is at %d", c.ID, fu, defs[0])
				return
			}
			k.Count("checked_css_items", 1)
		}
	}
	// 4. once handles
	for h := 0; h < nOnce; h++ {
		var bodies []int
		var firstBodyMarker string
		for _, m := range reOnceBody.FindAllStringSubmatchIndex(doc, -1) {
			if doc[m[4]:m[5]] == fmt.Sprint(h) {
				if len(bodies) == 0 {
					firstBodyMarker = doc[m[2]:m[3]]
				}
				bodies = append(bodies, m[0])
			}
		}
		bodies = append(bodies, allIndex(doc, fmt.Sprintf("<blk>OB-h%d</blk>", h))...)
		bodies = append(bodies, allIndex(doc, fmt.Sprintf("<blk>OW-h%d</blk>", h))...)
		sort.Ints(bodies)
		usesH, firstUse, firstMarker := 0, -1, ""
		for _, m := range reOnceUse.FindAllStringSubmatchIndex(doc, -1) {
			if doc[m[4]:m[5]] == fmt.Sprint(h) {
				if firstUse < 0 {
					firstUse, firstMarker = m[0], doc[m[2]:m[3]]
				}
			}
		}
		for _, r := range uses {
			if (r.Kind == "oncemark" || r.Kind == "oncebody" || r.Kind == "oncewith") && r.Handle == h {
				usesH++
			}
		}
		if len(bodies) > 1 {
			fail("C12/once-content-twice", "content of once handle %d was emitted %d times (offsets %v)", h, len(bodies), bodies)
			return
		}
		if usesH > 0 && len(bodies) == 0 {
			fail("C12/once-content-missing", "once handle %d was used %d times in this context but its content never appears", h, usesH)
			return
		}
		if firstUse >= 0 && len(bodies) == 1 && firstBodyMarker != "" && (bodies[0] > firstUse || firstBodyMarker != firstMarker) {
			if bodies[0] > firstUse {
				fail("C12/once-content-after-use", "once handle %d: content at %d, first use at %d", h, bodies[0], firstUse)
				return
			}
		}
		if usesH > 0 {
			k.Count("checked_once_items", 1)
		}
	}
}

type c12ctx struct {
	stream   bool // middleware mode: the page handler streams instead of buffering
	cancelAt int  // middleware mode: cancel the request context when this fault point is reached (-1: never)
	name     string
	specs    []*Node
	fault    Fault
	nonce    bool
	env      *Env
	w        *core
	err      error
	viaMW    bool
	status   int
	// errPage: the page fails after rendering everything (buffered handler), and the configured
	// error handler answers with a templ page of its own (errSpec, tracked by errEnv). The
	// document the client gets is the error page alone.
	viaHandler bool
	errPage    bool
	errSpec    *Node
	errEnv     *Env
	errServed  bool
}

func c12World(rc *kernel.RunCtx) {
	t := rc.T
	k := kernel.New(t, kernel.M1, 1<<30)
	kernel.Active = k
	takeLateUse() // nothing from an earlier run
	defer lockAware(k)()
	kn := drawKnobs(t, rc.Run)
	kn.OwnBuf = false
	kn.install(t)
	defer simsync.SetPoolPolicy(nil, 0)
	templruntime.SetDevelopmentMode(false)
	maxSteps := rc.Param("max_steps", 2000)

	// universe
	u := &c12u{Reg: map[string]bool{}}
	sp, cp := scriptPool(), cssPool()
	ns, nc := t.Range(2, len(sp), "nscripts"), t.Range(2, len(cp), "ncss")
	rs, rcss := t.Choose(len(sp), "rot-s"), t.Choose(len(cp), "rot-c")
	for i := 0; i < ns; i++ {
		u.Scripts = append(u.Scripts, sp[(i+rs)%len(sp)])
	}
	for i := 0; i < nc; i++ {
		u.Css = append(u.Css, cp[(i+rcss)%len(cp)])
	}
	nOnce := t.Range(1, 3, "nonce-handles")
	uni := &Universe{}
	for i := 0; i < nOnce; i++ {
		with := t.Chance(1, 3, "once-with-component")
		u.OnceWith = append(u.OnceWith, with)
		if with {
			uni.Onces = append(uni.Onces, templ.NewOnceHandle(templ.WithComponent(corpus.Block(fmt.Sprintf("OW-h%d", i)))))
		} else if i == 0 {
			uni.Onces = append(uni.Onces, templ.NewOnceHandle())
		} else {
			uni.Onces = append(uni.Onces, &templ.OnceHandle{}) // declared, not constructed
		}
	}
	middleware := t.Chance(1, 4, "middleware")
	var regClasses []templ.CSSClass
	if middleware {
		for _, c := range u.Css {
			if t.Bool("register") {
				u.Reg[c.ID] = true
				regClasses = append(regClasses, c)
			}
		}
	}
	// one middleware value serves every request of the run, as in a real server
	var sharedPage templ.Component
	mw := templ.NewCSSMiddleware(http.HandlerFunc(func(w http.ResponseWriter, r *http.Request) { templ.Handler(sharedPage).ServeHTTP(w, r) }), regClasses...)
	ext := map[*Node]*nodeExt{}
	nctx := t.Range(1, rc.Param("max_contexts", 4), "ncontexts")
	faultsLeft := t.Choose(2, "nfaults")
	var ctxs []*c12ctx
	for i := 0; i < nctx; i++ {
		c := &c12ctx{name: fmt.Sprintf("ctx#%d", i), nonce: t.Chance(1, 3, "nonce"), viaMW: middleware, cancelAt: -1}
		c.stream = middleware && t.Bool("streaming-handler")
		if middleware && t.Chance(2, 5, "client-leaves-mid-render") {
			c.cancelAt = t.Choose(3, "cancel-at")
		}
		if !middleware && t.Chance(1, 5, "served-by-handler") {
			c.viaHandler = true
		}
		// (a streamed page has reached the client when it fails, so page and error page are one
		// document; behind the middleware they are also one context)
		if (middleware || (c.viaHandler && !c.stream)) && c.cancelAt < 0 && t.Chance(1, 3, "failing-page-with-templ-error-page") {
			c.errPage = true
			b := t.Range(1, rc.Param("max_nodes", 30), "err-budget")
			c.errSpec = &Node{K: "seq", Kids: []*Node{genC12(t, ext, &b, 0, nOnce)}}
		}
		nr := t.Range(1, 3, "renders-in-context")
		if middleware || c.viaHandler {
			nr = 1
		}
		for j := 0; j < nr; j++ {
			b := t.Range(1, rc.Param("max_nodes", 30), "budget")
			c.specs = append(c.specs, &Node{K: "seq", Kids: []*Node{genC12(t, ext, &b, 0, nOnce)}})
		}
		if faultsLeft > 0 && !middleware && !c.viaHandler && t.Chance(1, 3, "faulty-context") {
			faultsLeft--
			c.fault = Fault{Kind: []string{"short", "zero"}[t.Choose(2, "fk")], At: t.Choose(400, "fat")}
		}
		ctxs = append(ctxs, c)
	}
	fixOnce := func(e *Env) {
		e.C12, e.Ext = u, ext
	}
	// start the contexts as tasks
	for _, c := range ctxs {
		c := c
		c.env = newEnv(uni)
		fixOnce(c.env)
		park := func(kind string, n int) { k.Park(c.name, kind, fmt.Sprint(n), nil) }
		c.env.Hook = func(kind, key string) { k.Park(c.name, kind, key, nil) }
		c.w = &core{fault: c.fault, sticky: true, park: park, limit: 512 << 10}
		k.GoNamed(c.name, func() {
			defer func() { c.w.done = true }()
			k.Park(c.name, "start", "", nil)
			if c.viaMW || c.viaHandler {
				comp := c.env.buildTracked(c.specs[0])
				rec := newRecorder()
				var hopts []func(*templ.ComponentHandler)
				if c.stream {
					hopts = append(hopts, templ.WithStreaming())
				}
				if c.errPage {
					page := comp
					comp = templ.ComponentFunc(func(ctx context.Context, w io.Writer) error {
						if err := page.Render(ctx, w); err != nil {
							return err
						}
						return errInjected // everything was rendered, then the page fails
					})
					c.errEnv = newEnv(uni)
					fixOnce(c.errEnv)
					c.errEnv.Hook = c.env.Hook
					errComp := c.errEnv.buildTracked(c.errSpec)
					hopts = append(hopts, templ.WithErrorHandler(func(r *http.Request, err error) http.Handler {
						c.errServed = true
						return templ.Handler(errComp)
					}))
				}
				var h http.Handler = templ.Handler(comp, hopts...)
				if c.viaMW {
					pageMW := templ.NewCSSMiddleware(h, regClasses...)
					pageMW.CSSHandler = mw.CSSHandler // the handler state (registered classes) is the shared one
					h = pageMW
				}
				rctx, cancel := context.WithCancel(context.Background())
				defer cancel()
				c.env.Cancel, c.env.CancelAt = cancel, c.cancelAt
				h.ServeHTTP(parkRecorder{rec, park}, httptest.NewRequest(http.MethodGet, "/page", nil).WithContext(rctx))
				c.w.got, c.status = rec.body.Bytes(), rec.status
				return
			}
			ctx := templ.InitializeContext(context.Background())
			if c.nonce {
				ctx = templ.WithNonce(ctx, "n0nce")
			}
			for _, s := range c.specs {
				if err := c.env.buildTracked(s).Render(ctx, c.w.as(kn.WKind)); err != nil {
					c.err = err
					return
				}
			}
		})
	}
	pk := newPicker(t)
	for {
		k.Quiesce()
		ps := k.ParkedList()
		if len(ps) == 0 {
			if n := k.Blocked(); n > 0 {
				// nothing runs, nothing is held by the scheduler, and tasks wait for a lock of the
				// code under test: only one of themselves could release it
				rc.Fail("C12/deadlock", "%d render(s) wait forever for a lock in the code under test while no other render is running or held at a seam", n)
				rc.Res.Restart = true
			}
			break
		}
		runaway := false
		for _, p := range ps {
			if p.Kind == "runaway" {
				runaway = true
			}
		}
		if runaway || k.Steps > 100*maxSteps {
			// the parked tasks are abandoned; the worker process is restarted after this run
			rc.Fail("C12/render-does-not-terminate", "a render wrote more than %d bytes or needed %d scheduler steps (runaway recursion)", 512<<10, k.Steps)
			rc.Res.Restart = true
			break
		}
		i := 0
		if k.Steps < maxSteps {
			i = pk.pick(t, ps)
		}
		k.Run(ps[i], kernel.Decision{})
	}
	totalUses := 0
	for _, c := range ctxs {
		who := fmt.Sprintf("%s (specs %v, nonce=%v, middleware=%v registered=%v, %d contexts interleaved)", c.name, c.specs, c.nonce, c.viaMW, keys(u.Reg), nctx)
		if c.w.fired {
			k.Count("fault_context_writer_failed", 1)
			if c.err == nil {
				rc.Fail("C12/fault-swallowed", "%s: writer failed but Render returned nil", who)
			}
			continue // a faulted context is only held to C10's prefix rule, checked there
		}
		if c.err != nil {
			rc.Fail("C12/render-error", "%s: %v", who, c.err)
			continue
		}
		if c.viaMW && c.cancelAt >= 0 && (c.status != http.StatusOK || c.stream) {
			// the client went away mid-render: the request failed, which is all that is required of it
			k.Count("fault_request_context_cancelled_mid_render", 1)
			continue
		}
		if c.errPage {
			// the client got the error page and nothing else: that document has to be complete
			if !c.errServed {
				rc.Fail("C12/error-handler-not-used", "%s: the page failed but the configured error handler was not asked", who)
				continue
			}
			k.Count("fault_page_failed_and_templ_error_page_served", 1)
			if c.stream {
				// streamed: the client has the page followed by the error page, rendered with one context
				all := append(append([]useRec{}, c.env.Uses...), c.errEnv.Uses...)
				totalUses += len(all)
				k.Count("probe_streamed_page_followed_by_error_page", 1)
				checkC12(rc, k, who+fmt.Sprintf(" [streamed; the page failed at its end and the error page %v follows it in the same response]", c.errSpec), string(c.w.got), all, u, nOnce)
				continue
			}
			totalUses += len(c.errEnv.Uses)
			checkC12(rc, k, who+fmt.Sprintf(" [error page %v served after the page itself failed and was discarded]", c.errSpec), string(c.w.got), c.errEnv.Uses, u, nOnce)
			continue
		}
		if (c.viaMW || c.viaHandler) && c.status != http.StatusOK {
			rc.Fail("C12/middleware-page-failed", "%s: status %d", who, c.status)
			continue
		}
		totalUses += len(c.env.Uses)
		checkC12(rc, k, who, string(c.w.got), c.env.Uses, u, nOnce)
	}
	if middleware && !rc.Failed() {
		rec := httptest.NewRecorder()
		mw.ServeHTTP(rec, httptest.NewRequest(http.MethodGet, "/styles/templ.css", nil))
		sheet := rec.Body.String()
		for _, c := range u.Css {
			n := len(allIndex(sheet, string(c.Class)))
			if u.Reg[c.ID] && n != 1 {
				rc.Fail("C12/stylesheet-rule-count", "registered class %s appears %d times in the stylesheet %q", c.ID, n, kernel.Short(sheet, 400))
			}
			if !u.Reg[c.ID] && n != 0 {
				rc.Fail("C12/stylesheet-unregistered-rule", "class %s is not registered but is in the stylesheet", c.ID)
			}
		}
		k.Count("probe_middleware_run", 1)
	}
	// items rendered directly with a plain context (no generated component around them): every
	// such render is a context of its own
	if !rc.Failed() {
		for round := 0; round < 2; round++ {
			for _, sc := range u.Scripts {
				var b strings.Builder
				if err := sc.Render(context.Background(), &b); err != nil {
					rc.Fail("C12/render-error", "script component %s with a plain context: %v", sc.Name, err)
				}
				d := b.String()
				if sc.Function != "" && (len(allIndex(d, sc.Function)) != 1 || strings.Index(d, sc.Function) > strings.Index(d, sc.CallInline+"</script>")) {
					rc.Fail("C12/script-used-undefined", "script component %s rendered on its own with a plain context (round %d): %q", sc.Name, round, kernel.Short(d, 300))
				}
			}
			for _, c := range u.Css {
				var b strings.Builder
				if err := templ.RenderCSSItems(context.Background(), &b, c); err != nil || len(allIndex(b.String(), string(c.Class))) != 1 {
					rc.Fail("C12/css-used-undefined", "RenderCSSItems(%s) with a plain context (round %d): err=%v out=%q", c.ID, round, err, kernel.Short(b.String(), 200))
				}
			}
			var b strings.Builder
			h := templ.NewOnceHandle()
			if err := h.Once().Render(templ.WithChildren(context.Background(), templ.Raw("<once-x/>")), &b); err != nil || b.String() != "<once-x/>" {
				rc.Fail("C12/once-content-missing", "a fresh once handle rendered with a plain context (round %d): err=%v out=%q", round, err, b.String())
			}
			k.Count("bare_context_renders", int64(len(u.Scripts)+len(u.Css)+1))
		}
	}
	k.Count("uses_checked", int64(totalUses))
	if lu := takeLateUse(); lu != "" {
		rc.Fail("C12/writer-used-after-its-render-returned", "%s", lu)
	}
	rc.Finish(k)
	rc.Res.Nontriv = totalUses >= 2
	rc.Res.Key = rc.Res.LogHash
	if rc.WantSample || rc.Failed() {
		var cs []map[string]any
		for _, c := range ctxs {
			var sp []string
			for _, s := range c.specs {
				sp = append(sp, describeC12(s, ext))
			}
			cs = append(cs, map[string]any{"context": c.name, "renders": sp, "uses_rendered": len(c.env.Uses), "nonce": c.nonce, "fault": fmt.Sprint(c.fault), "doc_bytes": len(c.w.got)})
		}
		rc.Res.Sample = map[string]any{"contexts": cs, "scripts": len(u.Scripts), "css": len(u.Css), "once_handles": nOnce, "middleware": middleware, "registered": keys(u.Reg), "steps": k.Steps, "switches": k.Switches}
	}
}

func keys(m map[string]bool) []string {
	var out []string
	for k := range m {
		out = append(out, k)
	}
	sort.Strings(out)
	return out
}

func describeC12(n *Node, ext map[*Node]*nodeExt) string {
	s := n.K
	if x := ext[n]; x != nil && n.K == "bshape" {
		s += fmt.Sprintf("{%s; conds %v scripts %v}", describeShape(bshapeASTs[n.N%len(bshapeASTs)]), shapeConds(x.Conds), x.Ss)
	} else if x != nil && n.K == "ashape" {
		s += fmt.Sprintf("{%s; conds %v scripts %v classes %v}", describeShape(ashapeASTs[n.N%len(ashapeASTs)]), shapeConds(x.Conds), x.Ss, x.Items)
	} else if x != nil && (len(x.Items) > 0 || n.K == "ontwo" || n.K == "oncond") {
		s += fmt.Sprintf("{n=%d m=%d b=%v items=%v}", n.N, x.M, n.B, x.Items)
	} else if n.S != "" || n.N != 0 {
		s += fmt.Sprintf("[%s,%d,%v]", n.S, n.N, n.B)
	}
	if len(n.Kids) > 0 {
		var ks []string
		for _, k := range n.Kids {
			ks = append(ks, describeC12(k, ext))
		}
		s += "(" + strings.Join(ks, " ") + ")"
	}
	return s
}

// buildTracked builds a spec and wraps once-related nodes so that their use is logged.
func (e *Env) buildTracked(n *Node) templ.Component { return e.Build(n) }
