// Package gen is the C15 world: the real generatecmd.Run inside a synctest bubble, on
// a scratch copy whose os/sync imports are redirected to the simulator's shims. Every
// os call of the command parks; the tape decides who proceeds and which calls fail.
package gen

import (
	"bytes"
	"context"
	"fmt"
	"go/format"
	"log/slog"
	"os"
	"path/filepath"
	"sort"
	"strings"
	"sync"
	"testing"
	"time"

	"github.com/a-h/templ"
	"github.com/a-h/templ/cmd/templ/generatecmd"
	"github.com/a-h/templ/generator"
	parser "github.com/a-h/templ/parser/v2"
	"github.com/a-h/templ/zzverif/kernel"
	"github.com/a-h/templ/zzverif/shim/simos"
	"github.com/a-h/templ/zzverif/shim/simsync"
)

// pool of template sources: the repository's own generator test inputs plus
// hand-made failing files.
var (
	poolOnce sync.Once
	goodPool []string
	badPool  = []string{
		"package x\n\ntempl a() {\n<div>",                                  // truncated: parse error
		"package x\n\ntempl a() {\n\t<div>{ \"a\" </div>\n}\n",             // unterminated expression
		"package x\n\ntempl a(x int y) {\n\t<div>a</div>\n}\n",             // signature is not Go: format error
		"package x\n\ntempl a() {\n\t<div>{ fmt.Sprint(1 + ) }</div>\n}\n", // expression is not Go
		"packag x\n",
		"package x\n\nfunc f( {\n}\n\ntempl a() {\n\t<p>a</p>\n}\n",
	}
)

func loadPool() {
	poolOnce.Do(func() {
		src := os.Getenv("VSIM_SRC")
		m, _ := filepath.Glob(filepath.Join(src, "generator", "test-*", "template.templ"))
		sort.Strings(m)
		for _, f := range m {
			b, err := os.ReadFile(f)
			if err == nil && len(b) < 6000 {
				goodPool = append(goodPool, string(b))
			}
		}
		goodPool = append(goodPool, "package x\n\ntempl a() {\n\t<div>a</div>\n}\n", "package x\n", "", "\n",
			// Go code that gofmt would change: import blocks out of order, old-style number
			// literals, odd spacing and alignment - the output has to be the gofmt-formatted text
			"package x\n\nimport (\n\t\"strings\"\n\t\"fmt\"\n\t\"context\"\n)\n\nvar _ = context.Background\n\nfunc label(n int) string {\n\treturn strings.ToUpper(fmt.Sprint(n))\n}\n\ntempl a(n int) {\n\t<b>{ label(n) }</b>\n}\n",
			"package x\n\nconst mask = 0XFF\nconst big = 0B1011 + 0O17 + 1E3\n\nvar   table = map[string]int{\n\"a\":1,\n\"bbbbbb\":   2,\n}\n\ntempl a() {\n\t<i data-n={ fmt.Sprint(mask + table[\"a\"]) }>x</i>\n}\n",
			"package x\n\nimport \"os\"\nimport \"fmt\"\n\ntype  T struct{\n\tA int\n\tLonger string\n}\n\nfunc (t T) S() string { return fmt.Sprint(t.A, os.PathSeparator) }\n\ntempl a(t T) {\n\t<p>{ t.S() }</p>\n}\n")
	})
}

type fileSpec struct {
	Rel     string
	Content string
	MTime   time.Time
}

type plannedFault struct {
	Op, Rel, Kind string
	fired         bool
}

// expectedFor generates one file the way the statement says: that file alone,
// sequentially, formatted.
func expectedFor(abs, rel string, opts []generator.GenerateOpt) (string, bool) {
	t, err := parser.Parse(abs)
	if err != nil {
		return "", false
	}
	var b bytes.Buffer
	if _, err := generator.Generate(t, &b, append(append([]generator.GenerateOpt{}, opts...), generator.WithFileName(rel))...); err != nil {
		return "", false
	}
	out, err := format.Source(b.Bytes())
	if err != nil {
		return "", false
	}
	return string(out), true
}

func snapshot(root string) map[string]string {
	m := map[string]string{}
	filepath.WalkDir(root, func(p string, d os.DirEntry, err error) error {
		if err != nil || d.IsDir() {
			return nil
		}
		b, _ := os.ReadFile(p)
		rel, _ := filepath.Rel(root, p)
		m[rel] = string(b)
		return nil
	})
	return m
}

func mtimes(root string) map[string]time.Time {
	m := map[string]time.Time{}
	filepath.WalkDir(root, func(p string, d os.DirEntry, err error) error {
		if err != nil || d.IsDir() {
			return nil
		}
		if fi, err := d.Info(); err == nil {
			rel, _ := filepath.Rel(root, p)
			m[rel] = fi.ModTime()
		}
		return nil
	})
	return m
}

func skipped(rel string) bool {
	parts := strings.Split(filepath.Dir(rel), string(filepath.Separator))
	for _, p := range parts {
		if p == "." || p == "" {
			continue
		}
		if p == "vendor" || p == "node_modules" || strings.HasPrefix(p, ".") || strings.HasPrefix(p, "_") {
			return true
		}
	}
	return false
}

// parkLog is a slog.Handler whose every record is a scheduler seam (it takes no lock, so a
// goroutine parked inside it holds nothing). Only warnings and errors are records here.
type parkLog struct{ k *kernel.Kernel }

func (p parkLog) Enabled(_ context.Context, l slog.Level) bool { return l >= slog.LevelWarn }
func (p parkLog) Handle(_ context.Context, r slog.Record) error {
	if r.Level >= slog.LevelError {
		p.k.Park("log", "error", "", nil)
	}
	return nil
}
func (p parkLog) WithAttrs([]slog.Attr) slog.Handler { return p }
func (p parkLog) WithGroup(string) slog.Handler      { return p }

type world struct {
	rc     *kernel.RunCtx
	k      *kernel.Kernel
	t      *kernel.Tape
	root   string
	faults []*plannedFault
	burst  bool
	maxPar int
	// cancelled: the context of the run in progress was cancelled by the simulator
	cancelled bool
	argPath   string // -path as given to the command (may lead through a symbolic link)
	mt0       map[string]time.Time
}

func (w *world) hook() *simos.HookT {
	return &simos.HookT{Before: func(op, path string) simos.Fault {
		rel, err := filepath.Rel(w.root, path)
		if (err != nil || strings.HasPrefix(rel, "..")) && w.argPath != "" {
			rel, err = filepath.Rel(w.argPath, path) // the tree as the user spelled it (through a link)
		}
		if err != nil || strings.HasPrefix(rel, "..") {
			return simos.Fault{} // outside the tree (go.mod lookup, temp files): not a seam
		}
		d := w.k.Park("fs:"+rel, op, "", nil)
		return simos.Fault{Kind: d.Op}
	}}
}

// runCommand executes Run under the scheduler and returns its error.
func (w *world) runCommand(args generatecmd.Arguments, withFaults bool) (runErr error, ok bool) {
	k, t := w.k, w.t
	log := slog.New(parkLog{k})
	g, err := generatecmd.NewGenerate(log, args)
	if err != nil {
		w.rc.Fail("harness", "NewGenerate: %v", err)
		return nil, false
	}
	simos.SetHook(w.hook())
	defer simos.SetHook(nil)
	var mu sync.Mutex
	done := false
	// the user's Ctrl-C (or the CI job's timeout) may arrive at any moment: before the walk, in
	// the middle of it, while files are being written
	ctx, cancel := context.WithCancel(context.Background())
	defer cancel()
	cancelAt := -1
	w.cancelled = false
	if withFaults && !w.burst && t.Chance(1, 5, "cancel-run") {
		cancelAt = t.Choose(60, "cancel-at-step")
	}
	if cancelAt == 0 {
		cancel()
		w.cancelled = true
		k.Count("fault_context_cancelled", 1)
	}
	go func() {
		e := g.Run(ctx)
		mu.Lock()
		runErr, done = e, true
		mu.Unlock()
	}()
	for step := 1; ; step++ {
		k.Quiesce()
		groups := k.Groups()
		if len(groups) == 0 {
			break
		}
		if step == cancelAt {
			cancel()
			w.cancelled = true
			k.Count("fault_context_cancelled", 1)
			k.Logf("context cancelled at step %d", step)
			continue // cancellation may wake goroutines: settle first
		}
		if len(groups) > w.maxPar {
			w.maxPar = len(groups)
		}
		decide := func(p *kernel.Parked) kernel.Decision {
			if !withFaults {
				return kernel.Decision{}
			}
			if p.Name == "log" {
				return kernel.Decision{}
			}
			rel := strings.TrimPrefix(p.Name, "fs:")
			for _, f := range w.faults {
				if !f.fired && f.Op == p.Kind && f.Rel == rel {
					f.fired = true
					k.Count("fault_"+f.Op+"_"+f.Kind, 1)
					return kernel.Decision{Op: f.Kind}
				}
			}
			return kernel.Decision{}
		}
		if w.burst {
			var all []*kernel.Parked
			for _, g := range groups {
				all = append(all, g...)
			}
			// bursts cannot carry per-task decisions; faults are applied one by one first
			released := false
			for _, p := range all {
				if d := decide(p); d.Op != "" {
					k.Run(p, d)
					released = true
					break
				}
			}
			if !released {
				k.Burst(all, kernel.Decision{})
			}
			continue
		}
		i := 0
		if !k.Capped() {
			i = t.Choose(len(groups), "sched")
		}
		grp := groups[i]
		if len(grp) == 1 {
			k.Run(grp[0], decide(grp[0]))
		} else {
			k.GroupRels++
			k.Burst(grp, kernel.Decision{})
		}
	}
	mu.Lock()
	defer mu.Unlock()
	if !done {
		w.rc.Fail("C15/deadlock", "generate did not return: no goroutine of the command can make progress (workers=%d)", args.WorkerCount)
		return nil, false
	}
	return runErr, true
}

func simWorld(rc *kernel.RunCtx) {
	loadPool()
	t := rc.T
	k := kernel.New(t, kernel.M2, rc.Param("max_steps", 20000))
	kernel.Active = k
	simsync.NewEpoch()
	root, err := os.MkdirTemp(os.Getenv("VSIM_TMP"), "gen-")
	if err != nil {
		rc.Fail("harness", "%v", err)
		return
	}
	defer os.RemoveAll(root)
	root, _ = filepath.EvalSymlinks(root)
	// where the tree lives: directories *above* the one the command is pointed at may have any
	// name (a CI runner's _work, a cache under .cache, a checkout below vendor)
	if above := []string{"", "", "_work", ".cache", "vendor", "node_modules", "_"}[t.Choose(7, "ancestor-name")]; above != "" {
		root = filepath.Join(root, above, "project")
		if err := os.MkdirAll(root, 0o755); err != nil {
			rc.Fail("harness", "%v", err)
			return
		}
		k.Count("probe_tree_below_a_directory_with_a_skipped_name", 1)
	}
	w := &world{rc: rc, k: k, t: t, root: root, burst: rc.Param("burst", 0) == 1}

	// ---- the tree
	dirNames := []string{"a", "b", "pkg", "vendor", "node_modules", ".hidden", "_under", "deep", "x.y", "vendored", "vendor.bak", "node_modules2", "my_vendor", "a_b", "b.c", "x_"}
	var dirs []string
	dirs = append(dirs, ".")
	nd := t.Range(0, 6, "ndirs")
	for i := 0; i < nd; i++ {
		parent := dirs[t.Choose(len(dirs), "parent")]
		if strings.Count(parent, "/") >= 3 {
			parent = "."
		}
		d := filepath.Join(parent, dirNames[t.Choose(len(dirNames), "dirname")])
		dirs = append(dirs, d)
	}
	base := time.Date(2024, 1, 1, 0, 0, 0, 0, time.UTC)
	lazy := t.Chance(1, 4, "lazy")
	keep := t.Chance(1, 3, "keep-orphaned")
	version := t.Chance(1, 4, "include-version")
	workers := t.Range(1, 16, "workers")
	var opts []generator.GenerateOpt
	if version {
		opts = append(opts, generator.WithVersion(templ.Version()))
	}
	files := map[string]fileSpec{}
	put := func(rel, content string, mt time.Time) {
		files[rel] = fileSpec{Rel: rel, Content: content, MTime: mt}
	}
	nf := t.Range(1, rc.Param("max_files", 24), "nfiles")
	for i := 0; i < nf; i++ {
		dir := dirs[t.Choose(len(dirs), "dir")]
		name := fmt.Sprintf("f%d", t.Choose(30, "fname"))
		if t.Chance(1, 8, "odd-name") {
			name = []string{"_draft", ".hidden", "vendor", "node_modules", "a_b", "x.y", "_"}[t.Choose(7, "oddname")]
		}
		rel := filepath.Join(dir, name+".templ")
		if _, dup := files[rel]; dup {
			continue
		}
		content := goodPool[t.Choose(len(goodPool), "good")]
		if t.Chance(1, 7, "bad-file") {
			content = badPool[t.Choose(len(badPool), "bad")]
		}
		// modification times as trees in the wild have them: mostly recent, but also the epoch
		// (reproducible archives, image layers), before it, and in the future (clock skew)
		mt := base
		if t.Chance(1, 6, "odd-mtime") {
			mt = []time.Time{time.Unix(0, 0), time.Unix(-3600, 0), time.Unix(1, 0), base.AddDate(40, 0, 0)}[t.Choose(4, "which-mtime")]
			w.k.Count("probe_template_with_epoch_or_future_mtime", 1)
		}
		put(rel, content, mt)
		switch t.Choose(7, "preexisting") {
		case 0: // stale generated file (older than the template when lazy)
			put(filepath.Join(dir, name+"_templ.go"), "package stale\n", mt.Add(-10*time.Second))
		case 2: // stale generated file with exactly the template's modification time (a checkout, a tar, a COPY)
			put(filepath.Join(dir, name+"_templ.go"), "package stale\n", mt)
		case 1: // up-to-date generated file, newer than the template: filled in below
			put(filepath.Join(dir, name+"_templ.go"), "\x00uptodate", mt.Add(10*time.Second))
		}
	}
	for i, n := 0, t.Range(0, 4, "norphans"); i < n; i++ {
		dir := dirs[t.Choose(len(dirs), "dir")]
		rel := filepath.Join(dir, fmt.Sprintf("orphan%d_templ.go", i))
		if t.Chance(1, 3, "orphan-named-after-a-template") {
			// what is left when page2.templ is deleted next to page.templ: a name that begins like
			// that of a template that is still there (and sorts right after it)
			var stems []string
			for r := range files {
				if strings.HasSuffix(r, ".templ") {
					stems = append(stems, strings.TrimSuffix(r, ".templ"))
				}
			}
			sort.Strings(stems)
			if len(stems) > 0 {
				stem := stems[t.Choose(len(stems), "which-stem")] + []string{"2", "_old", "s", "_templ"}[t.Choose(4, "stem-suffix")]
				if _, taken := files[stem+".templ"]; !taken {
					if _, taken := files[stem+"_templ.go"]; !taken {
						rel = stem + "_templ.go"
						w.k.Count("probe_orphan_named_after_a_template", 1)
					}
				}
			}
		}
		put(rel, "package orphan\n", base)
	}
	for i, n := 0, t.Range(0, 4, "nother"); i < n; i++ {
		dir := dirs[t.Choose(len(dirs), "dir")]
		put(filepath.Join(dir, []string{"main.go", "notes.txt", "x_templ.txt", "y.templ.bak", "z_test.go"}[t.Choose(5, "other")]), fmt.Sprintf("other %d\n", i), base)
	}
	for _, d := range dirs {
		os.MkdirAll(filepath.Join(root, d), 0o755)
	}
	write := func(f fileSpec) {
		p := filepath.Join(root, f.Rel)
		os.WriteFile(p, []byte(f.Content), 0o644)
		os.Chtimes(p, f.MTime, f.MTime)
	}
	var rels []string
	for rel := range files {
		rels = append(rels, rel)
	}
	sort.Strings(rels)
	for _, rel := range rels {
		write(files[rel])
	}
	// expected generation per template (sequential, that file alone)
	expected := map[string]string{}
	generatable := map[string]bool{}
	var templs []string
	for _, rel := range rels {
		if !strings.HasSuffix(rel, ".templ") {
			continue
		}
		templs = append(templs, rel)
		if exp, ok := expectedFor(filepath.Join(root, rel), rel, opts); ok {
			expected[rel] = exp
			generatable[rel] = true
		}
	}
	for _, rel := range rels {
		if files[rel].Content == "\x00uptodate" {
			tr := strings.TrimSuffix(rel, "_templ.go") + ".templ"
			f := files[rel]
			if generatable[tr] {
				f.Content = expected[tr]
			} else {
				f.Content = "package stale\n"
				f.MTime = files[tr].MTime.Add(-10 * time.Second)
			}
			files[rel] = f
			write(f)
		}
	}
	// injected disk faults: EIO on the read of one template, ENOSPC / short write on one output
	diskFaulted := map[string]bool{}
	var active []string
	for _, rel := range templs {
		if !skipped(rel) {
			active = append(active, rel)
		}
	}
	if len(active) > 0 && !w.burst {
		if t.Chance(1, 4, "fault-read") {
			rel := active[t.Choose(len(active), "which")]
			w.faults = append(w.faults, &plannedFault{Op: "ReadFile", Rel: rel, Kind: "eio"})
		}
		if t.Chance(1, 4, "fault-write") {
			rel := active[t.Choose(len(active), "which")]
			w.faults = append(w.faults, &plannedFault{Op: "WriteFile", Rel: strings.TrimSuffix(rel, ".templ") + "_templ.go", Kind: []string{"enospc", "short"}[t.Choose(2, "wk")]})
		}
	}
	before := snapshot(root)
	w.mt0 = mtimes(root)
	// how the user spells -path: the directory itself, or a path through a symbolic link (the
	// directory is a link, or one of its ancestors is)
	argPath := root
	switch t.Choose(6, "path-spelling") {
	case 0:
		link := root + "-link"
		if err := os.Symlink(root, link); err == nil {
			defer os.Remove(link)
			argPath = link
			k.Count("probe_path_is_a_symlink", 1)
		}
	case 1:
		up := root + "-up"
		if err := os.Symlink(filepath.Dir(root), up); err == nil {
			defer os.Remove(up)
			argPath = filepath.Join(up, filepath.Base(root))
			k.Count("probe_path_through_symlinked_ancestor", 1)
		}
	}
	w.argPath = argPath
	args := generatecmd.Arguments{Path: argPath, WorkerCount: workers, KeepOrphanedFiles: keep, Lazy: lazy, IncludeVersion: version}
	desc := fmt.Sprintf("workers=%d keep=%v lazy=%v version=%v files=%d dirs=%v", workers, keep, lazy, version, len(rels), dirs)

	var sample map[string]any
	esc := kernel.Bubble(rc.TB, func() {
		runErr, ok := w.runCommand(args, true)
		if !ok {
			return
		}
		for _, f := range w.faults {
			if f.fired {
				tr := f.Rel
				if strings.HasSuffix(tr, "_templ.go") {
					tr = strings.TrimSuffix(tr, "_templ.go") + ".templ"
				}
				diskFaulted[tr] = true
			}
		}
		after := snapshot(root)
		void := w.cancelled && runErr != nil
		if void {
			// the run was interrupted and says that it failed: nothing is claimed about the tree it
			// leaves behind, the next complete run has to bring it to the same state as ever
			k.Count("probe_cancelled_run_reported_failure", 1)
		} else {
			w.judge(desc, before, after, expected, generatable, diskFaulted, templs, keep, lazy, files, runErr, "first run")
		}
		if rc.Failed() {
			return
		}
		// (5) a second run changes nothing (files whose generation was hit by a disk fault aside)
		runErr2, ok := w.runCommand(args, false)
		if !ok {
			return
		}
		after2 := snapshot(root)
		for rel, c := range after {
			tr := strings.TrimSuffix(rel, "_templ.go") + ".templ"
			if diskFaulted[tr] || void {
				continue
			}
			if after2[rel] != c {
				rc.Fail("C15/second-run-changes-file", "%s: second run changed %s", desc, rel)
				return
			}
		}
		for rel := range after2 {
			tr := strings.TrimSuffix(rel, "_templ.go") + ".templ"
			if _, had := after[rel]; !had && !diskFaulted[tr] && !void {
				rc.Fail("C15/second-run-creates-file", "%s: second run created %s", desc, rel)
				return
			}
		}
		persistent := false
		for _, rel := range templs {
			if !skipped(rel) && !generatable[rel] {
				persistent = true
			}
		}
		if (runErr2 != nil) != persistent {
			rc.Fail("C15/second-run-status", "%s: second run returned %v, persistent failing files: %v", desc, runErr2, persistent)
			return
		}
		heal := map[string]bool{}
		if lazy {
			// a half-written output is newer than its template: -lazy skips it by design
			heal = diskFaulted
			if void {
				// ... and an interrupted run may have left any of them half-written
				heal = map[string]bool{}
				for _, rel := range templs {
					heal[rel] = true
				}
			}
		}
		w.judge2(desc, before, after2, expected, generatable, heal, templs, keep, lazy, files, runErr2)
		sample = map[string]any{"config": desc, "templates": len(templs), "generatable": len(generatable), "faults": fmt.Sprint(len(w.faults)), "first_run_error": fmt.Sprint(runErr), "max_parked_groups": w.maxPar, "steps": k.Steps}
	})
	if esc != "" && !rc.Failed() {
		if strings.Contains(esc, "deadlock") || strings.Contains(esc, "blocked") {
			rc.Fail("C15/goroutine-leak", "goroutines of the command outlived Run: %s", kernel.FirstLines(esc, 8))
		} else {
			rc.Fail("C15/panic", "%s", kernel.FirstLines(esc, 10))
		}
	}
	k.Count("templates_checked", int64(len(templs)))
	if w.maxPar >= 3 {
		k.Count("probe_three_or_more_tasks_parked", 1)
	}
	rc.Finish(k)
	rc.Res.Nontriv = k.Switches > 0 || w.burst
	rc.Res.Key = rc.Res.LogHash
	if rc.WantSample || rc.Failed() {
		if sample == nil {
			sample = map[string]any{"config": desc}
		}
		sample["tree"] = rels
		rc.Res.Sample = sample
	}
}

func (w *world) judge(desc string, before, after map[string]string, expected map[string]string, generatable, diskFaulted map[string]bool, templs []string, keep, lazy bool,
	files map[string]fileSpec, runErr error, which string) {
	rc := w.rc
	anyFail := false
	owned := map[string]bool{} // paths the command may create or change
	for _, rel := range templs {
		out := strings.TrimSuffix(rel, ".templ") + "_templ.go"
		if skipped(rel) {
			continue
		}
		owned[out] = true
		if diskFaulted[rel] {
			anyFail = true
			continue
		}
		if !generatable[rel] {
			anyFail = true
			// an ungeneratable template must neither produce nor clobber output
			b, hadB := before[out]
			a, hadA := after[out]
			if hadA != hadB || a != b {
				rc.Fail("C15/output-for-failing-template", "%s (%s): %s cannot be generated but %s changed", desc, which, rel, out)
				return
			}
			continue
		}
		got, have := after[out]
		if !have {
			rc.Fail("C15/output-missing", "%s (%s): no %s although %s generates fine (run error: %v)", desc, which, out, rel, runErr)
			return
		}
		if got != expected[rel] {
			rc.Fail("C15/output-differs", "%s (%s): %s is not the formatted generation of %s alone (%d vs %d bytes; old content %q)", desc, which, out, rel, len(got), len(expected[rel]), kernel.Short(before[out], 40))
			return
		}
		w.k.Count("outputs_equal_to_single_file_generation", 1)
	}
	// orphans and everything else
	for rel, c := range before {
		if owned[rel] {
			continue
		}
		isOrphan := strings.HasSuffix(rel, "_templ.go") && !skipped(rel)
		if isOrphan {
			if _, hasTempl := before[strings.TrimSuffix(rel, "_templ.go")+".templ"]; hasTempl {
				isOrphan = false
			}
		}
		got, have := after[rel]
		if isOrphan && !keep {
			if have {
				rc.Fail("C15/orphan-kept", "%s (%s): orphaned %s still exists", desc, which, rel)
				return
			}
			continue
		}
		if !have || got != c {
			rc.Fail("C15/unrelated-file-touched", "%s (%s): %s (orphan=%v, skipped dir=%v) was %s", desc, which, rel, isOrphan, skipped(rel), map[bool]string{true: "changed", false: "removed"}[have])
			return
		}
		if fi, err := os.Stat(filepath.Join(w.root, rel)); err == nil && !fi.ModTime().Equal(w.mt0[rel]) {
			rc.Fail("C15/unrelated-file-rewritten", "%s (%s): %s (orphan=%v, skipped dir=%v) has the same content but was written again (modification time %v, was %v)", desc, which, rel, isOrphan, skipped(rel), fi.ModTime(), w.mt0[rel])
			return
		}
	}
	for rel := range after {
		if _, had := before[rel]; !had && !owned[rel] {
			rc.Fail("C15/unexpected-file-created", "%s (%s): %s was created", desc, which, rel)
			return
		}
	}
	if (runErr != nil) != anyFail {
		rc.Fail("C15/exit-status", "%s (%s): Run returned %v but failing files present=%v", desc, which, runErr, anyFail)
	}
}

// judge2 judges the tree after the second run: files hit by a disk fault in the first run
// are exempt only where -lazy legitimately skips them; the exit status was checked by the caller.
func (w *world) judge2(desc string, before, after map[string]string, expected map[string]string, generatable, exempt map[string]bool, templs []string, keep, lazy bool,
	files map[string]fileSpec, runErr error) {
	anyFail := false
	for _, rel := range templs {
		if !skipped(rel) && (!generatable[rel]) {
			anyFail = true
		}
	}
	var e error
	if anyFail || len(exempt) > 0 {
		e = runErr
		if e == nil && (anyFail || len(exempt) > 0) {
			e = fmt.Errorf("status checked by caller")
		}
	}
	w.judge(desc, before, after, expected, generatable, exempt, templs, keep, lazy, files, e, "second run")
}

func TestSim(t *testing.T) { kernel.Main(t, simWorld) }
