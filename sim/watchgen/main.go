// Command watchgen writes the template variant families of the watch world (C16):
// each family is a chain v0 -> v1 -> ... produced by the edit operators the property
// lists. Every variant is a package exporting Page(x, y string, on bool). All variants
// are type-correct by construction.
package main

import (
	"flag"
	"fmt"
	"math/rand/v2"
	"os"
	"path/filepath"
	"strconv"
	"strings"
)

type attr struct {
	Name   string
	Static bool
	Val    string // static value
	Expr   string // expression (string typed, or bool for Bool attrs)
	Bool   bool
}

type spart struct {
	Static string
	Expr   string
	InStr  bool
}

type item struct {
	K      string // text | elem | expr | script | comment | if | for | void | inline
	Post   string // inline: static text right after the expression, on the same line
	Text   string
	Tag    string
	Attrs  []attr
	Kids   []item
	Else   []item
	Expr   string
	Script []spart
}

var texts = []string{"caf\xe9 latin-1 byte", "hello", `it's "quoted" text`, `back\slash \n not-a-newline`, "ünï©ødé 日本 ✓", "tab\there", "a &amp; b &lt; c", "ctl\x01byte", "nbsp end", "percent %d %s", "line one\n\t\tline two", "`backtick`", "trailing space ", "x", "$dollar #hash @at", "emoji 😀"}
var statVals = []string{"v", "two words", "it's", "a&amp;b", "ünï", `back\slash`, "", "100%"}

// The first two are plain variables (script positions use only those). Several of the others
// differ from each other only in white space - inside a string constant, where it is content,
// or between tokens, where it is not.
var strExprs = []string{"x", "y", `x + "!"`, "x + y", `"lit"`, `"EUR  "`, `"EUR "`, `x + "  !"`, `x + " !"`, "x+y", "`two\n  lines`", "`two\n\tlines`", `x +  y`}
var attrNames = []string{"title", "data-a", "data-b", "class", "style", "id", "alt"}
var tags = []string{"div", "span", "p", "section", "b"}
var jsStatics = []string{"var a = ", "console.log(", "let s = 'single'; var b = ", "/* c */ var d = "}

// bigTexts are long static runs: one larger than 64 KiB (an inlined stylesheet or image would
// be), and runs of a few KiB in scripts whose characters take two, three and four bytes, so
// that any fixed-size chunking of a literal falls inside a character somewhere.
var bigTexts = []string{
	strings.Repeat("0123456789abcdef ", 4200),
	strings.Repeat("日本語のテキスト、", 230),
	"x" + strings.Repeat("日本語のテキスト、", 230),
	strings.Repeat("Grüße aus Köln, où l'été est très doux. ", 220),
	"ab" + strings.Repeat("emoji 😀 und 🎉 ", 300),
	strings.Repeat("a", 4095) + "é" + strings.Repeat("b", 4095) + "日" + strings.Repeat("c", 100),
}

// exprTwins maps an expression to one that differs from it in white space only.
var exprTwins = map[string]string{
	`"EUR  "`: `"EUR "`, `"EUR "`: `"EUR  "`,
	`x + "  !"`: `x + " !"`, `x + " !"`: `x + "  !"`,
	"x + y": "x+y", "x+y": "x +  y", "x +  y": "x + y",
	"`two\n  lines`": "`two\n\tlines`", "`two\n\tlines`": "`two\n  lines`",
}

type gen struct{ r *rand.Rand }

func (g *gen) pick(s []string) string { return s[g.r.IntN(len(s))] }

func (g *gen) leaf() item {
	if g.r.IntN(20) == 0 {
		if g.r.IntN(2) == 0 {
			return item{K: "text", Text: bigTexts[0]} // the one beyond 64 KiB
		}
		return item{K: "text", Text: bigTexts[g.r.IntN(len(bigTexts))]}
	}
	switch g.r.IntN(10) {
	case 9:
		return item{K: "inline", Text: g.pick([]string{"$", "(", "price: ", "a-", "x"}), Expr: g.pick(strExprs), Post: g.pick([]string{"", ")", " each", "-b", "%"})}
	case 0, 1:
		return item{K: "text", Text: g.pick(texts)}
	case 2, 3:
		return item{K: "expr", Expr: g.pick(strExprs)}
	case 4:
		return item{K: "comment", Text: g.pick(texts)}
	case 5:
		return g.script()
	case 6:
		return item{K: "void", Tag: "input", Attrs: g.attrs(true)}
	default:
		return item{K: "elem", Tag: g.pick(tags), Attrs: g.attrs(false), Kids: []item{{K: "text", Text: g.pick(texts)}}}
	}
}

func (g *gen) script() item {
	var ps []spart
	n := 1 + g.r.IntN(2)
	for i := 0; i < n; i++ {
		if g.r.IntN(3) == 0 {
			ps = append(ps, spart{Static: `var q = "`}, spart{Expr: g.pick(strExprs[:2]), InStr: true}, spart{Static: `";`})
		} else {
			ps = append(ps, spart{Static: g.pick(jsStatics)}, spart{Expr: g.pick(strExprs[:2])}, spart{Static: ";"})
		}
	}
	return item{K: "script", Script: ps}
}

func (g *gen) attrs(void bool) []attr {
	var as []attr
	seen := map[string]bool{}
	n := g.r.IntN(4)
	for i := 0; i < n; i++ {
		name := g.pick(attrNames)
		if seen[name] {
			continue
		}
		seen[name] = true
		switch g.r.IntN(5) {
		case 0, 1:
			as = append(as, attr{Name: name, Static: true, Val: g.pick(statVals)})
		case 2, 3:
			as = append(as, attr{Name: name, Expr: g.pick(strExprs)})
		default:
			if !seen["hidden"] {
				seen["hidden"] = true
				as = append(as, attr{Name: "hidden", Bool: true, Expr: "on"})
			}
		}
	}
	if void {
		as = append([]attr{{Name: "type", Static: true, Val: "text"}}, as...)
	}
	return as
}

func (g *gen) items(depth, n int) []item {
	var out []item
	for i := 0; i < n; i++ {
		if depth < 2 && g.r.IntN(4) == 0 {
			switch g.r.IntN(3) {
			case 0:
				out = append(out, item{K: "elem", Tag: g.pick(tags), Attrs: g.attrs(false), Kids: g.items(depth+1, 1+g.r.IntN(3))})
			case 1:
				out = append(out, item{K: "if", Expr: "on", Kids: g.items(depth+1, 1+g.r.IntN(2)), Else: g.items(depth+1, g.r.IntN(2))})
			default:
				out = append(out, item{K: "for", Kids: g.items(depth+1, 1+g.r.IntN(2))})
			}
			continue
		}
		out = append(out, g.leaf())
	}
	return out
}

// ---- rendering to templ source -------------------------------------------------------

func src(items []item, ind int, sb *strings.Builder) {
	tab := strings.Repeat("\t", ind)
	for _, it := range items {
		switch it.K {
		case "text":
			sb.WriteString(tab + it.Text + "\n")
		case "expr":
			sb.WriteString(tab + "{ " + it.Expr + " }\n")
		case "inline":
			sb.WriteString(tab + "<b>" + it.Text + "{ " + it.Expr + " }" + it.Post + "</b>\n")
		case "comment":
			sb.WriteString(tab + "<!-- " + it.Text + " -->\n")
		case "void":
			sb.WriteString(tab + "<" + it.Tag + attrsSrc(it.Attrs) + "/>\n")
		case "elem":
			sb.WriteString(tab + "<" + it.Tag + attrsSrc(it.Attrs) + ">\n")
			src(it.Kids, ind+1, sb)
			sb.WriteString(tab + "</" + it.Tag + ">\n")
		case "script":
			sb.WriteString(tab + "<script>\n")
			line := tab + "\t"
			for _, p := range it.Script {
				if p.Expr != "" {
					line += "{{ " + p.Expr + " }}"
				} else {
					line += p.Static
				}
				if strings.HasSuffix(p.Static, ";") {
					sb.WriteString(line + "\n")
					line = tab + "\t"
				}
			}
			if strings.TrimSpace(line) != "" {
				sb.WriteString(line + "\n")
			}
			sb.WriteString(tab + "</script>\n")
		case "if":
			sb.WriteString(tab + "if " + it.Expr + " {\n")
			src(it.Kids, ind+1, sb)
			if len(it.Else) > 0 {
				sb.WriteString(tab + "} else {\n")
				src(it.Else, ind+1, sb)
			}
			sb.WriteString(tab + "}\n")
		case "for":
			sb.WriteString(tab + "for _, s := range []string{x, y} {\n")
			sb.WriteString(tab + "\t<i>{ s }</i>\n")
			src(it.Kids, ind+1, sb)
			sb.WriteString(tab + "}\n")
		}
	}
}

func attrsSrc(as []attr) string {
	var sb strings.Builder
	for _, a := range as {
		switch {
		case a.Bool:
			sb.WriteString(" " + a.Name + "?={ " + a.Expr + " }")
		case a.Static:
			if strings.Contains(a.Val, `"`) {
				sb.WriteString(" " + a.Name + "='" + a.Val + "'")
			} else {
				sb.WriteString(" " + a.Name + `="` + a.Val + `"`)
			}
		default:
			sb.WriteString(" " + a.Name + "={ " + a.Expr + " }")
		}
	}
	return sb.String()
}

func source(items []item) string {
	var sb strings.Builder
	sb.WriteString("package v\n\ntempl Page(x string, y string, on bool) {\n")
	src(items, 1, &sb)
	sb.WriteString("}\n")
	return sb.String()
}

// ---- edit operators --------------------------------------------------------------------

func clone(items []item) []item {
	out := make([]item, len(items))
	for i, it := range items {
		c := it
		c.Attrs = append([]attr(nil), it.Attrs...)
		c.Script = append([]spart(nil), it.Script...)
		c.Kids = clone(it.Kids)
		c.Else = clone(it.Else)
		out[i] = c
	}
	return out
}

// lists returns pointers to every item list in the tree.
func lists(root *[]item) []*[]item {
	out := []*[]item{root}
	for i := range *root {
		it := &(*root)[i]
		if len(it.Kids) > 0 || it.K == "elem" || it.K == "if" || it.K == "for" {
			out = append(out, lists(&it.Kids)...)
		}
		if len(it.Else) > 0 {
			out = append(out, lists(&it.Else)...)
		}
	}
	return out
}

func (g *gen) edit(items []item) ([]item, string) {
	for try := 0; try < 50; try++ {
		out := clone(items)
		ls := lists(&out)
		l := ls[g.r.IntN(len(ls))]
		if len(*l) == 0 {
			continue
		}
		i := g.r.IntN(len(*l))
		it := &(*l)[i]
		switch op := g.r.IntN(14); op {
		case 0, 1: // static text edit
			if it.K == "text" || it.K == "comment" {
				old := it.Text
				it.Text = g.pick(texts)
				if it.Text != old {
					return out, "text-edit"
				}
			}
			if it.K == "elem" || it.K == "void" {
				for ai := range it.Attrs {
					if it.Attrs[ai].Static && it.Attrs[ai].Name != "type" {
						it.Attrs[ai].Val = g.pick(statVals)
						return out, "static-attr-edit"
					}
				}
			}
			if it.K == "script" {
				for pi := range it.Script {
					if it.Script[pi].Expr == "" && !strings.Contains(it.Script[pi].Static, `"`) && it.Script[pi].Static != ";" {
						it.Script[pi].Static = g.pick(jsStatics)
						return out, "script-text-edit"
					}
				}
			}
		case 2, 3: // attribute rename
			if it.K == "elem" || it.K == "void" {
				for ai := range it.Attrs {
					a := &it.Attrs[ai]
					if a.Bool || a.Name == "type" || strings.Contains(a.Expr, "templ.URL") {
						continue
					}
					nn := g.pick(attrNames)
					dup := false
					for _, b := range it.Attrs {
						if b.Name == nn {
							dup = true
						}
					}
					if !dup {
						a.Name = nn
						return out, "attr-rename"
					}
				}
			}
		case 4, 5: // move an expression to another kind of position
			if it.K == "expr" {
				e := it.Expr
				switch g.r.IntN(4) {
				case 0:
					*it = item{K: "elem", Tag: "span", Attrs: []attr{{Name: g.pick(attrNames), Expr: e}}, Kids: []item{{K: "text", Text: "m"}}}
					return out, "expr-text-to-attr"
				case 1:
					*it = item{K: "script", Script: []spart{{Static: "var m = "}, {Expr: e}, {Static: ";"}}}
					return out, "expr-text-to-script"
				case 2:
					*it = item{K: "script", Script: []spart{{Static: `var m = "`}, {Expr: e, InStr: true}, {Static: `";`}}}
					return out, "expr-text-to-script-string"
				default:
					*it = item{K: "comment", Text: "{ " + e + " }"}
					return out, "expr-text-to-comment"
				}
			}
			if it.K == "script" {
				for _, p := range it.Script {
					if p.Expr != "" {
						*it = item{K: "expr", Expr: p.Expr}
						return out, "expr-script-to-text"
					}
				}
			}
			if it.K == "elem" {
				for ai, a := range it.Attrs {
					if !a.Static && !a.Bool && !strings.Contains(a.Expr, "templ.URL") {
						it.Attrs = append(it.Attrs[:ai], it.Attrs[ai+1:]...)
						it.Kids = append([]item{{K: "expr", Expr: a.Expr}}, it.Kids...)
						return out, "expr-attr-to-text"
					}
				}
			}
		case 12, 13: // move one character of static text across an expression on the same line
			if it.K == "inline" {
				if len(it.Text) > 0 && g.r.IntN(2) == 0 {
					it.Post = it.Text[len(it.Text)-1:] + it.Post
					it.Text = it.Text[:len(it.Text)-1]
					return out, "inline-shift-right"
				}
				if len(it.Post) > 0 {
					it.Text += it.Post[:1]
					it.Post = it.Post[1:]
					return out, "inline-shift-left"
				}
			}
		case 6: // reorder
			if len(*l) > 1 {
				j := (i + 1) % len(*l)
				(*l)[i], (*l)[j] = (*l)[j], (*l)[i]
				return out, "reorder"
			}
		case 7: // insert static
			ins := item{K: "text", Text: g.pick(texts)}
			*l = append((*l)[:i], append([]item{ins}, (*l)[i:]...)...)
			return out, "insert-static"
		case 8: // delete static
			if it.K == "text" || it.K == "comment" {
				*l = append((*l)[:i], (*l)[i+1:]...)
				return out, "delete-static"
			}
		case 9: // change a Go expression
			if it.K == "expr" {
				old := it.Expr
				if tw, ok := exprTwins[old]; ok && g.r.IntN(2) == 0 {
					it.Expr = tw // the same expression but for white space
					return out, "expr-whitespace-change"
				}
				it.Expr = g.pick(strExprs)
				if it.Expr != old {
					return out, "expr-change"
				}
			}
		case 10: // title -> href with URL (expression text changes)
			if it.K == "elem" {
				for ai, a := range it.Attrs {
					if !a.Static && !a.Bool && !strings.Contains(a.Expr, "templ.URL") {
						it.Tag = "a"
						it.Attrs[ai] = attr{Name: "href", Expr: "templ.URL(" + a.Expr + ")"}
						return out, "attr-to-href"
					}
				}
			}
		case 11: // wrap static text in an element / toggle comment
			if it.K == "text" {
				*it = item{K: "comment", Text: it.Text}
				return out, "text-to-comment"
			}
			if it.K == "comment" && !strings.Contains(it.Text, "{") {
				*it = item{K: "text", Text: it.Text}
				return out, "comment-to-text"
			}
		}
	}
	return clone(items), "none"
}

func main() {
	seed := flag.Uint64("seed", 1, "corpus seed")
	nf := flag.Int("families", 30, "number of families")
	out := flag.String("out", "", "world directory (fam/ and zz_registry_test.go are written below it)")
	imp := flag.String("import", "github.com/a-h/templ/zzverif/worlds/watch", "import path of the world")
	flag.Parse()
	g := &gen{r: rand.New(rand.NewPCG(*seed, 0xC16))}
	var reg strings.Builder
	reg.WriteString("// Code generated by watchgen; DO NOT EDIT.\n\npackage watch\n\nimport (\n")
	var body strings.Builder
	body.WriteString("var families = []family{\n")
	for f := 0; f < *nf; f++ {
		items := g.items(0, 2+g.r.IntN(5))
		k := 1 + g.r.IntN(5)
		fmt.Fprintf(&body, "\t{Name: \"f%03d\", Variants: []variant{\n", f)
		op := "base"
		for v := 0; v <= k; v++ {
			if v > 0 {
				items, op = g.edit(items)
			}
			dir := filepath.Join(*out, "fam", fmt.Sprintf("f%03d", f), fmt.Sprintf("v%d", v))
			if err := os.MkdirAll(dir, 0o755); err != nil {
				panic(err)
			}
			s := source(items)
			if err := os.WriteFile(filepath.Join(dir, "t.templ"), []byte(s), 0o644); err != nil {
				panic(err)
			}
			alias := fmt.Sprintf("f%03dv%d", f, v)
			fmt.Fprintf(&reg, "\t%s \"%s/fam/f%03d/v%d\"\n", alias, *imp, f, v)
			abs, _ := filepath.Abs(dir)
			fmt.Fprintf(&body, "\t\t{Dir: %s, Op: %q, Source: %s, Comp: %s.Page},\n", strconv.Quote(abs), op, strconv.Quote(s), alias)
		}
		body.WriteString("\t}},\n")
	}
	body.WriteString("}\n")
	reg.WriteString(")\n\n")
	reg.WriteString(body.String())
	if err := os.WriteFile(filepath.Join(*out, "zz_registry_test.go"), []byte(reg.String()), 0o644); err != nil {
		panic(err)
	}
}
